#!/bin/bash
# Build the fact extractor (nightly, zero cargo dependencies) and warm the dependency cache.
set -e
cd "$(dirname "$0")"
export CARGO_NET_OFFLINE=true
(cd driver && cargo build --offline 2>&1 | tail -2)
python3 -m mokalint.extract /repo mini_moka default
# warm the witness crate's dependency build (doctests are compiled against /repo on every run)
(cd witness && cp /repo/Cargo.lock . && CARGO_TARGET_DIR=/verif/.cache/target-witness cargo +nightly test --doc --offline >/dev/null 2>&1 || true)
