#!/usr/bin/env python3
"""import_refactor.py <round> <letter> <An>  -- validate (apply, build, full test suite in the scratch worktree) the refactorings a sub-agent left in
/tmp/ref<round>/<An>/out/r*, copy them to refactors/R<n><letter>-r<k>/ and run all quick checks on each (first contact)."""
import os, shutil, subprocess, sys
rnd, letter, area = sys.argv[1], sys.argv[2], sys.argv[3]
wt = '/tmp/ref%s/%s' % (rnd, area)
env = dict(os.environ, CARGO_TARGET_DIR=wt + '/target', CARGO_NET_OFFLINE='true')
names = []
for r in sorted(os.listdir(wt + '/out')):
    p = '%s/out/%s/patch.diff' % (wt, r)
    if not os.path.exists(p): continue
    subprocess.run('git checkout -q -- . ; git clean -fdq -e out -e target', shell=True, cwd=wt)
    if subprocess.run(['git', 'apply', p], cwd=wt).returncode != 0:
        print(area, r, 'PATCH-FAILS'); continue
    t = subprocess.run(['cargo', 'test', '--offline'], cwd=wt, env=env, capture_output=True, text=True)
    ok = t.returncode == 0 and 'test result: ok. 35 passed' in t.stdout
    subprocess.run('git checkout -q -- . ; git clean -fdq -e out -e target', shell=True, cwd=wt)
    print(area, r, 'suite', 'ok' if ok else 'FAILS')
    if not ok: continue
    dst = '/verif/refactors/R%s%s-%s' % (area[1:], letter, r)
    os.makedirs(dst, exist_ok=True)
    shutil.copy(p, dst); 
    if os.path.exists('%s/out/%s/notes.md' % (wt, r)): shutil.copy('%s/out/%s/notes.md' % (wt, r), dst)
    names.append(os.path.basename(dst))
shutil.rmtree(wt + '/target', ignore_errors=True)
r = subprocess.run(['python3', '/verif/tools/refactor_matrix.py'] + names, capture_output=True, text=True)
print(r.stdout, r.stderr[-500:])
