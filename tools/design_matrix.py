#!/usr/bin/env python3
"""Fill Appendix B of DESIGN.md from seeded/MATRIX.json and seeded/*/notes.md."""
import json, os, re
base = '/verif/seeded'
m = json.load(open(os.path.join(base, 'MATRIX.json')))
rows = ['| change | property | what it is (first line of notes) | caught by |', '|---|---|---|---|']
for k in sorted(m):
    v = m[k]
    title = ''
    np_ = os.path.join(base, k, 'notes.md')
    if os.path.exists(np_):
        for l in open(np_):
            l = l.strip().lstrip('# ').strip()
            if l:
                title = l; break
    else:
        meta = json.load(open(os.path.join(base, k, 'meta.json')))
        title = meta.get('source', '')
    title = re.sub(r'\|', '/', title)[:110]
    caught = ', '.join(v['caught_by']) if isinstance(v, dict) and v.get('caught_by') else '**MISSED**'
    prop = json.load(open(os.path.join(base, k, 'meta.json'))).get('breaks_property', '')
    rows.append('| %s | %s | %s | %s |' % (k, prop, title, caught))
s = open('/verif/DESIGN.md').read()
s = re.sub(r'<!-- MATRIX:BEGIN -->.*<!-- MATRIX:END -->', '<!-- MATRIX:BEGIN -->\n' + '\n'.join(rows) + '\n<!-- MATRIX:END -->', s, flags=re.S)
open('/verif/DESIGN.md', 'w').write(s)
print(len(rows) - 2, 'rows')
