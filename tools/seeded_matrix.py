#!/usr/bin/env python3
"""Apply every seeded mutation to /repo in turn (always reverted), run all claimed checks (quick tier),
and record which checks report a VIOLATION.  Writes seeded/MATRIX.json and updates meta.json 'caught_by'."""
import json, os, subprocess, sys
sys.path.insert(0, '/verif')
from mokalint.props import PROPERTIES
only = sys.argv[1:]
seeded = '/verif/seeded'
res = {}
assert subprocess.run(['git', '-C', '/repo', 'diff', '--quiet']).returncode == 0, '/repo dirty'
for d in sorted(os.listdir(seeded)):
    p = os.path.join(seeded, d, 'patch.diff')
    if not os.path.exists(p): continue
    if only and not any(d.startswith(o) for o in only): continue
    if subprocess.run(['git', '-C', '/repo', 'apply', p]).returncode != 0:
        res[d] = 'PATCH-FAILS'; continue
    caught, failed = [], []
    try:
        for pid in sorted(PROPERTIES):
            r = subprocess.run(['./check', pid], cwd='/verif', capture_output=True, text=True)
            if r.returncode == 1 and 'VIOLATION property=' in r.stdout:
                rules = sorted({l.strip().split()[0] for l in r.stdout.splitlines() if l.startswith('  ')})
                caught.append('%s(%s)' % (pid, ','.join(rules)))
            elif r.returncode != 0:
                failed.append('%s:%s' % (pid, r.stdout.strip().splitlines()[-1][:150] if r.stdout.strip() else r.stderr[-150:]))
    finally:
        subprocess.run(['git', '-C', '/repo', 'checkout', '--', '.'])
    res[d] = {'caught_by': caught, 'check_failed': failed}
    own = d.split('-')[0]
    print(d, 'OWN' if any(c.startswith(own) for c in caught) else ('other' if caught else 'MISSED'), caught, failed)
    mp = os.path.join(seeded, d, 'meta.json')
    m = json.load(open(mp)); m['caught_by'] = caught; m['check_failed_closed'] = failed
    json.dump(m, open(mp, 'w'), indent=1)
if not only:
    json.dump(res, open(os.path.join(seeded, 'MATRIX.json'), 'w'), indent=1)
