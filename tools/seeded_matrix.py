#!/usr/bin/env python3
"""Apply every seeded mutation to /repo in turn (always reverted), run all claimed checks (quick tier),
and record which checks report a VIOLATION.  Writes seeded/MATRIX.json and updates meta.json 'caught_by'."""
import json, os, subprocess, sys
ROOT = os.environ.get('VERIF_ROOT', '/verif'); sys.path.insert(0, ROOT)
from mokalint.props import PROPERTIES
sys.path.insert(0, ROOT + '/tools')
from _runall import run_all, REPO
only = sys.argv[1:]
seeded = ROOT + '/seeded'
res = {}
assert subprocess.run(['git', '-C', REPO, 'diff', '--quiet']).returncode == 0, '/repo dirty'
for d in sorted(os.listdir(seeded)):
    p = os.path.join(seeded, d, 'patch.diff')
    if not os.path.exists(p): continue
    if only and not any(d.startswith(o) for o in only): continue
    if subprocess.run(['git', '-C', REPO, 'apply', p]).returncode != 0:
        res[d] = 'PATCH-FAILS'; continue
    caught, failed = [], []
    try:
        for pid, (rc, lines) in sorted(run_all().items()):
            if rc == 1 and any('VIOLATION property=' in l for l in lines):
                rules = sorted({l.strip().split()[0] for l in lines if l.startswith('  ')})
                caught.append('%s(%s)' % (pid, ','.join(rules)))
            elif rc != 0:
                failed.append('%s:%s' % (pid, lines[-1][:150] if lines else ''))
    finally:
        subprocess.run(['git', '-C', REPO, 'checkout', '--', '.'])
        subprocess.run(['git', '-C', REPO, 'clean', '-fdq', 'src'])   # files a patch added
    res[d] = {'caught_by': caught, 'check_failed': failed}
    own = d.split('-')[0]
    print(d, 'OWN' if any(c.startswith(own) for c in caught) else ('other' if caught else 'MISSED'), caught, failed)
    mp = os.path.join(seeded, d, 'meta.json')
    m = json.load(open(mp)); m['caught_by'] = caught; m['check_failed_closed'] = failed
    json.dump(m, open(mp, 'w'), indent=1)
mp = os.path.join(seeded, 'MATRIX.json')
import fcntl
with open(mp + '.lock', 'w') as lk:      # several workers (one scratch worktree each) may finish at the same time
    fcntl.flock(lk, fcntl.LOCK_EX)
    old = json.load(open(mp)) if os.path.exists(mp) and only else {}
    old.update(res)
    json.dump(old, open(mp, 'w'), indent=1, sort_keys=True)
print(len(old), 'total; missed:', [k for k, v in old.items() if isinstance(v, dict) and not v['caught_by']], '; check_failed:', [k for k, v in old.items() if isinstance(v, dict) and v['check_failed']])
