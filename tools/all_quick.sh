#!/bin/bash
# run all claimed quick checks in parallel on the current /repo tree; print non-ok outcomes
cd /verif
ids=$(python3 -c "import json;print(' '.join(c['property_id'] if 'property_id' in c else c['id'] for c in json.load(open('MANIFEST.json'))['checks']))" 2>/dev/null)
[ -z "$ids" ] && ids="C01 C03 C04 C05 C06 C07 C08 C09 C10 C11 C12 C13 C14 C15 C16 C17"
for c in $ids; do ./check $c > /tmp/allq_$c.out 2>&1; echo "$c rc=$?" ; grep -E "^  |CHECK-FAILED|KNOWN" /tmp/allq_$c.out | cut -c1-260; done
