#!/bin/bash
# verify_seeded.sh <Cxx> : independently re-verify the seeded mutations produced in /tmp/mut/<Cxx>/out/m*
# For each: (1) demo passes on the clean tree; (2) demo fails with patch; (3) full test suite passes with patch alone.
id=$1
wt=${MUTROOT:-/tmp/mut}/$id
cd $wt || exit 2
export CARGO_TARGET_DIR=$wt/target CARGO_NET_OFFLINE=true
res=$wt/out/verify.txt; : > $res
for m in $wt/out/m*/; do
  n=$(basename $m)
  git checkout -q -- . ; git clean -fdq -e out -e target
  cmd=$(grep -v '^\s*$' $m/demo_cmd.txt | grep -E "cargo" | tail -1 | sed -E 's/^.*(cargo (\+[a-z]+ )?test)/\1/; s/CARGO_TARGET_DIR=[^ ]+ //g')
  [ -z "$cmd" ] && { echo "$id $n NOCMD" >> $res; continue; }
  git apply $m/demo.patch 2>/dev/null || { echo "$id $n DEMO_PATCH_FAILS" >> $res; continue; }
  timeout 600 bash -c "$cmd" > $m/v_clean.log 2>&1; c1=$?
  git apply $m/patch.diff 2>/dev/null || { echo "$id $n PATCH_FAILS" >> $res; git checkout -q -- .; git clean -fdq -e out -e target; continue; }
  timeout 600 bash -c "$cmd" > $m/v_mut.log 2>&1; c2=$?
  git checkout -q -- . ; git clean -fdq -e out -e target
  git apply $m/patch.diff
  timeout 900 cargo test --offline > $m/v_suite.log 2>&1; c3=$?
  npass=$(grep -E "^test result: ok. 35 passed" $m/v_suite.log | wc -l)
  git checkout -q -- . ; git clean -fdq -e out -e target
  echo "$id $n demo_clean=$c1 demo_mut=$c2 suite=$c3 lib35=$npass" >> $res
done
rm -rf $wt/target
cat $res
