#!/usr/bin/env python3
"""Regenerates MANIFEST.json from mokalint.props (claimed properties) and NOT_APPLICABLE below."""
import json, os, sys
sys.path.insert(0, os.path.dirname(os.path.dirname(os.path.abspath(__file__))))
from mokalint.props import PROPERTIES, NOT_APPLICABLE, LEVEL_TEXT

checks = []
for pid in sorted(PROPERTIES):
    spec = PROPERTIES[pid]
    checks.append({
        'property_id': pid,
        'quick_cmd': './check %s --tier quick' % pid,
        'thorough_cmd': './check %s --tier thorough' % pid,
        'evidence_file': '/verif/evidence/%s.json' % pid,
        'replay_cmd_template': 'cat {path}',
        'engine': 'mokalint',
        'level_claimed': {
            'category': 'other',
            'text': LEVEL_TEXT + ' Decides: ' + spec['decides'] + '. Does not decide: ' + spec['does_not_decide'] + '.',
            'design_ref': 'DESIGN.md section 5 (%s)' % pid,
        },
        'level_note': 'Trusted: rustc type checker / MIR construction and callee resolution; semantics of std, dashmap, '
                      'crossbeam, triomphe primitives as named; user callbacks cannot reach cache internals; unwind paths not '
                      'analysed; the rule kernel itself (validated against seeded mutations, see DESIGN.md section 8).',
        'technique': spec.get('technique', 'static analysis: custom MIR lints (' + ', '.join(r.__name__.replace('rule_', '') for r in spec['rules']) + ')'),
    })
m = {
    'version': 1,
    'setup_cmd': 'cd /verif && ./setup.sh',
    'hooks': {
        'guard': 'moka_rs_mini_moka_verif',
        'enable': 'not used: static analysis needs no instrumentation of /repo; no hook commits exist',
        'baseline_off_cmd': 'cd /repo && cargo test --workspace --no-fail-fast --offline',
        'source_commits': [],
        'add_only': True,
    },
    'engines': [
        {'name': 'moka-facts', 'path': '/verif/driver', 'serves_properties': sorted(PROPERTIES),
         'kind_free_text': 'rustc_private driver (nightly) dumping type-checked MIR, resolved callees, ADTs, impls, constants as JSON'},
        {'name': 'mokalint', 'path': '/verif/mokalint', 'serves_properties': sorted(PROPERTIES),
         'kind_free_text': 'Python rule kernel: call graph, effects, lock-order, loops, origins with polarity, path-sensitive abstract interpretation of MIR'},
    ],
    'checks': checks,
    'not_applicable': [{'property_id': k, 'reason': v} for k, v in sorted(NOT_APPLICABLE.items()) if k not in PROPERTIES],
    'notes': 'All checks are static analysis (level other). Exit 2 + CHECK-FAILED = the check cannot give a verdict (anchor missing); never a VIOLATION line.',
}
json.dump(m, open(os.path.join(os.path.dirname(os.path.dirname(os.path.abspath(__file__))), 'MANIFEST.json'), 'w'), indent=1)
print('claimed', sorted(PROPERTIES), 'n/a', [x['property_id'] for x in m['not_applicable']])
