#!/bin/bash
# try_patch.sh <patch.diff> <Cnn> [Cnn...] : apply to /repo, run the checks, ALWAYS revert.
p=$1; shift
cd /repo || exit 2
git diff --quiet || { echo "/repo dirty"; exit 2; }
git apply "$p" || { echo "patch does not apply"; exit 2; }
for c in "$@"; do
  (cd /verif && ./check $c 2>&1 | grep -E "VIOLATION|CHECK-FAILED|KNOWN|^  |ok \(|VIOLATED") 
done
git -C /repo checkout -- .
git -C /repo clean -fdq src
git -C /repo status --short | head -3
