#!/bin/bash
# try_patch.sh <patch.diff> <Cnn> [Cnn...] : apply to /repo (or the worktree $TRY_REPO), run the checks, ALWAYS revert.
p=$1; shift
R=${TRY_REPO:-/repo}
cd $R || exit 2
git diff --quiet || { echo "$R dirty"; exit 2; }
git apply "$p" || { echo "patch does not apply"; exit 2; }
for c in "$@"; do
  if [ "$R" = /repo ]; then
    (cd /verif && ./check $c 2>&1 | grep -E "VIOLATION|CHECK-FAILED|KNOWN|^  |ok \(|VIOLATED")
  else
    t=$(basename $R)
    (cd /verif && VERIF_REPO=$R VERIF_CACHE_TAG=-$t VERIF_EVIDENCE=/tmp/evidence-$t ./check $c 2>&1 | grep -E "VIOLATION|CHECK-FAILED|KNOWN|^  |ok \(|VIOLATED")
  fi
done
git -C $R checkout -- .
git -C $R clean -fdq src
git -C $R status --short | head -3
