"""Run `./check ALL` on the current /repo tree; return {pid: (rc, [output lines])}."""
import os, subprocess
REPO = os.environ.get("MATRIX_REPO", "/repo")


def run_all(timeout=1800):
    env = dict(os.environ)
    if REPO != '/repo':
        tag = os.path.basename(REPO.rstrip('/'))
        env.update({'VERIF_REPO': REPO, 'VERIF_CACHE_TAG': '-' + tag, 'VERIF_EVIDENCE': '/tmp/evidence-' + tag})
    else:
        # a matrix run judges a MUTATED tree: its evidence must never land in /verif/evidence (committed evidence comes from the unchanged tree only)
        env.setdefault('VERIF_EVIDENCE', '/tmp/evidence-matrix')
    r = subprocess.run(['./check', 'ALL'], cwd=os.environ.get('VERIF_ROOT', '/verif'), capture_output=True, text=True, timeout=timeout, env=env)
    out, cur = {}, []
    for l in r.stdout.splitlines():
        if l.startswith('RESULT '):
            pid, rc = l.split()[1], int(l.split('rc=')[1])
            out[pid] = (rc, cur)
            cur = []
        else:
            cur.append(l)
    if not out:
        raise RuntimeError('check ALL produced no results: ' + (r.stdout[-300:] + r.stderr[-600:]))
    return out
