#!/usr/bin/env python3
"""import_round.py <round> <Cxx>  -- re-verify (tools/verify_seeded.sh) the seeded changes a sub-agent left in /tmp/mut<round>/<Cxx>/out/m*,
copy the verified ones to seeded/<Cxx>-r<round>m<N>/ with meta.json, and try each against all quick checks on /repo (first contact)."""
import json, os, shutil, subprocess, sys
rnd, pid = sys.argv[1], sys.argv[2]
root = '/tmp/mut%s' % rnd
out = subprocess.run(['bash', '/verif/tools/verify_seeded.sh', pid], env=dict(os.environ, MUTROOT=root), capture_output=True, text=True).stdout
print(out.strip())
head = subprocess.run(['git', '-C', '/repo', 'rev-parse', '--short', 'HEAD'], capture_output=True, text=True).stdout.strip()
for l in out.splitlines():
    w = l.split()
    if len(w) < 3 or w[0] != pid: continue
    n = w[1]
    ok = 'demo_clean=0' in l and 'suite=0' in l and 'lib35=1' in l and 'demo_mut=0' not in l and 'demo_mut=' in l
    if not ok:
        print('NOT VERIFIED', l); continue
    src = '%s/%s/out/%s' % (root, pid, n)
    dst = '/verif/seeded/%s-r%s%s' % (pid, rnd, n)
    os.makedirs(dst, exist_ok=True)
    for f in ('patch.diff', 'demo.patch', 'demo_cmd.txt', 'notes.md'):
        if os.path.exists(os.path.join(src, f)): shutil.copy(os.path.join(src, f), dst)
    files = sorted({x[6:].strip() for x in open(dst + '/patch.diff') if x.startswith('+++ b/')})
    meta = {'id': os.path.basename(dst), 'breaks_property': pid, 'round': int(rnd),
            'source': 'independent sub-agent (round %s: %s), given only the property text and a scratch worktree of /repo at %s' % (rnd, os.environ.get('ROUND_DESC', 'unbiased sample, no catalogue of kinds'), head),
            'files_changed': files, 'demo_cmd': open(dst + '/demo_cmd.txt').read().strip().splitlines()[-1], 'needs_to_manifest': 'see notes.md',
            'verified': {'how': 'tools/verify_seeded.sh in the scratch worktree: demo.patch alone -> demo passes; +patch.diff -> demo fails; patch.diff alone -> cargo test --offline passes', 'result': l.strip()}}
    json.dump(meta, open(dst + '/meta.json', 'w'), indent=1)
r = subprocess.run(['python3', '/verif/tools/seeded_matrix.py', '%s-r%s' % (pid, rnd)], capture_output=True, text=True)
print('\n'.join(x for x in r.stdout.splitlines() if x.startswith(pid)), r.stderr[-500:])
