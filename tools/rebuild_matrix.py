#!/usr/bin/env python3
"""Rebuild seeded/MATRIX.json from the per-change meta.json files (which seeded_matrix.py updates as it goes) -- after parallel matrix workers."""
import json, os
base = '/verif/seeded'
out = {}
for d in sorted(os.listdir(base)):
    mp = os.path.join(base, d, 'meta.json')
    if not os.path.exists(mp): continue
    m = json.load(open(mp))
    out[d] = {'caught_by': m.get('caught_by', []), 'check_failed': m.get('check_failed_closed', [])}
json.dump(out, open(os.path.join(base, 'MATRIX.json'), 'w'), indent=1, sort_keys=True)
own = sum(1 for k, v in out.items() if any(c.startswith(json.load(open(os.path.join(base, k, 'meta.json'))).get('breaks_property', k.split('-')[0])) for c in v['caught_by']))
print(len(out), 'changes;', sum(1 for v in out.values() if v['caught_by']), 'caught;', own, 'by a rule of their own property; missed:', [k for k, v in out.items() if not v['caught_by']])
