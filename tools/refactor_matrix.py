#!/usr/bin/env python3
"""Apply every behaviour-preserving refactoring in /verif/refactors to /repo in turn (always reverted) and run all claimed
checks: any VIOLATION or CHECK-FAILED is a false alarm / brittleness of the checker. Writes refactors/MATRIX.json."""
import json, os, subprocess, sys
ROOT = os.environ.get('VERIF_ROOT', '/verif'); sys.path.insert(0, ROOT)
from mokalint.props import PROPERTIES
sys.path.insert(0, ROOT + '/tools')
from _runall import run_all, REPO
only = sys.argv[1:]
base = ROOT + '/refactors'
res = {}
assert subprocess.run(['git', '-C', REPO, 'diff', '--quiet']).returncode == 0, '/repo dirty'
for d in sorted(os.listdir(base)):
    p = os.path.join(base, d, 'patch.diff')
    if not os.path.exists(p): continue
    if only and not any(d.startswith(o) for o in only): continue
    if subprocess.run(['git', '-C', REPO, 'apply', p]).returncode != 0:
        res[d] = 'PATCH-FAILS'; print(d, 'PATCH-FAILS'); continue
    alarms = []
    try:
        for pid, (rc, lines_) in sorted(run_all().items()):
            if rc != 0:
                lines = [l.strip() for l in lines_ if l.startswith('  ') or 'CHECK-FAILED' in l]
                alarms.append((pid, lines[:3]))
    finally:
        subprocess.run(['git', '-C', REPO, 'checkout', '--', '.'])
        subprocess.run(['git', '-C', REPO, 'clean', '-fdq', 'src'])   # files a patch added
        subprocess.run(['git', '-C', REPO, 'clean', '-fdq', 'src'])
    res[d] = alarms
    print(d, 'SILENT' if not alarms else 'ALARM')
    for pid, lines in alarms:
        for l in lines: print('      ', pid, l[:230])
mp = os.path.join(base, 'MATRIX.json')
import fcntl
with open(mp + '.lock', 'w') as lk:      # several workers (one scratch worktree each) may finish at the same time
    fcntl.flock(lk, fcntl.LOCK_EX)
    old = json.load(open(mp)) if os.path.exists(mp) and only else {}
    old.update(res)
    json.dump(old, open(mp, 'w'), indent=1, sort_keys=True)
