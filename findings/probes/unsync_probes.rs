// Probes for design-time findings D1-D4, D8 (unsync cache). Appended to
// src/unsync/cache.rs in a scratch copy only (see run_probes.sh). Each test asserts the
// behaviour the property demands, so it FAILS on a tree that has the defect.
#[cfg(test)]
mod verif_probes {
    use super::Cache;
    use crate::common::time::Clock;
    use std::time::Duration;

    #[test]
    fn d1_invalidate_gives_back_entry_count() {
        let mut c = Cache::new(10);
        c.insert(1, 1);
        c.insert(2, 2);
        c.insert(3, 3);
        c.invalidate(&1);
        assert_eq!(c.iter().count(), 2);
        assert_eq!(c.entry_count(), 2, "C10: entry_count after invalidate");
    }

    #[test]
    fn d2_invalidate_all_resets_entry_count() {
        let mut c = Cache::new(10);
        c.insert(1, 1);
        c.insert(2, 2);
        c.insert(3, 3);
        c.invalidate_all();
        assert_eq!(c.iter().count(), 0);
        assert_eq!(c.weighted_size(), 0);
        assert_eq!(c.entry_count(), 0, "C10: entry_count after invalidate_all");
    }

    #[test]
    fn d3_invalidate_entries_if_gives_back_weight_and_count() {
        let mut c = Cache::new(3);
        c.insert(1, 1);
        c.insert(2, 2);
        c.insert(3, 3);
        c.invalidate_entries_if(|_, _| true);
        assert_eq!(c.iter().count(), 0);
        assert_eq!(c.weighted_size(), 0, "C10: weighted_size after invalidate_entries_if");
        assert_eq!(c.entry_count(), 0, "C10: entry_count after invalidate_entries_if");
        c.insert(4, 4);
        c.insert(5, 5);
        c.insert(6, 6);
        assert!(c.contains_key(&4) && c.contains_key(&5) && c.contains_key(&6),
            "C03: refill below capacity must be retained");
    }

    #[test]
    fn d4_ttl_expiry_gives_back_weight() {
        let mut c = Cache::builder()
            .max_capacity(3)
            .time_to_live(Duration::from_secs(10))
            .build();
        let (clock, mock) = Clock::mock();
        c.set_expiration_clock(Some(clock));
        c.insert(1, 1);
        c.insert(2, 2);
        c.insert(3, 3);
        mock.increment(Duration::from_secs(11));
        c.insert(4, 4);
        c.insert(5, 5);
        c.insert(6, 6);
        assert!(c.contains_key(&4) && c.contains_key(&5) && c.contains_key(&6),
            "C03: refill after ttl expiry must be retained");
        assert_eq!(c.weighted_size(), 3, "C10: weighted_size after ttl expiry + refill");
        assert_eq!(c.entry_count(), 3);
    }

    // D8 (known finding, C15): contains_key reaches the over-capacity eviction, which a later
    // iter() can observe.
    #[test]
    fn d8_contains_key_is_observable_by_iter() {
        let run = |extra: bool| {
            let mut c = Cache::builder()
                .max_capacity(2)
                .weigher(|_k: &u32, v: &u32| *v)
                .build();
            c.insert(1, 1);
            c.insert(2, 1);
            c.insert(1, 2);
            if extra {
                c.contains_key(&9);
            }
            let mut ks: Vec<u32> = c.iter().map(|(k, _)| *k).collect();
            ks.sort_unstable();
            ks
        };
        assert_eq!(run(false), run(true), "C15: contains_key changed what iter() yields");
    }
}
