#!/bin/bash
# Usage: run_probes.sh [git-rev of /repo, default HEAD]   -- runs the probes in a scratch worktree
set -u
rev=${1:-HEAD}
wt=$(mktemp -d /tmp/probe.XXXXXX); rmdir "$wt"
here=$(cd "$(dirname "$0")" && pwd)
git -C /repo worktree add --detach "$wt" "$rev" >/dev/null 2>&1 || exit 2
cat "$here/unsync_probes.rs" >> "$wt/src/unsync/cache.rs"
cat "$here/sync_probes.rs" >> "$wt/src/sync/cache.rs"
cat "$here/sketch_probe.rs" >> "$wt/src/common/frequency_sketch.rs"
(cd "$wt" && CARGO_NET_OFFLINE=true CARGO_TARGET_DIR="$wt/target" cargo test --offline --lib verif_probe 2>&1 | grep -E "^test |panicked|C[0-9][0-9]:|test result")
git -C /repo worktree remove --force "$wt"
