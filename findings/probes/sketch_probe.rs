// Probe for observation O2 (FrequencySketch::reset underflow). Appended to
// src/common/frequency_sketch.rs in a scratch copy only.
#[cfg(test)]
mod verif_probe_sketch {
    use super::FrequencySketch;

    // Greedy adversary: choose each next hash (out of a fixed pseudo-random candidate pool) so that
    // as many of its 4 counters as possible are currently even; the aging step then sees more than
    // 2 * size odd counters and `(size >> 1) - (count >> 2)` underflows.
    #[test]
    fn o2_reset_must_not_underflow() {
        let mut s = FrequencySketch::default();
        s.ensure_capacity(129); // table of 256 slots = 4096 counters, sample_size = 1290
        let mut x: u64 = 0x9E37_79B9_7F4A_7C15;
        let mut next = || {
            x ^= x << 13;
            x ^= x >> 7;
            x ^= x << 17;
            x
        };
        let r = std::panic::catch_unwind(std::panic::AssertUnwindSafe(|| {
            for _ in 0..1290 {
                let mut best = 0u64;
                let mut best_gain = i32::MIN;
                for _ in 0..400 {
                    let h = next();
                    let start = ((h & 3) << 2) as u8;
                    let mut gain = 0i32;
                    let mut seen = Vec::new();
                    for i in 0..4u8 {
                        let idx = s.index_of(h, i);
                        let off = ((start + i) as usize) << 2;
                        if seen.contains(&(idx, off)) {
                            continue;
                        }
                        seen.push((idx, off));
                        let c = (s.table[idx] >> off) & 0xF;
                        if c == 15 {
                            continue;
                        }
                        if c % 2 == 0 {
                            gain += 1;
                        } else {
                            gain -= 1;
                        }
                    }
                    if gain > best_gain {
                        best_gain = gain;
                        best = h;
                    }
                }
                s.increment(best);
            }
        }));
        assert!(r.is_ok(), "C08/C14: FrequencySketch::reset panicked (arithmetic overflow) for a chosen hash sequence");
        assert!(s.size < s.sample_size, "C14: size after aging is {} (sample_size {})", s.size, s.sample_size);
    }
}
