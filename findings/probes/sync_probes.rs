// Probes for design-time findings D5, D6a/b, D7 (sync cache). Appended to src/sync/cache.rs
// in a scratch copy only (see run_probes.sh). Each test asserts the behaviour the property
// demands, so it FAILS on a tree that has the defect.
#[cfg(test)]
mod verif_probes {
    use super::{Cache, ConcurrentCacheExt};
    use crate::common::time::Clock;
    use std::time::Duration;

    // D5(a): a queued ReadOp::Hit applied after an update moves last_accessed backwards.
    #[test]
    fn d5a_late_hit_must_not_shorten_idle_deadline() {
        let mut cache = Cache::builder()
            .max_capacity(100)
            .time_to_idle(Duration::from_secs(10))
            .build();
        cache.reconfigure_for_testing();
        let (clock, mock) = Clock::mock();
        cache.set_expiration_clock(Some(clock));
        let cache = cache;

        cache.insert("k", 1);
        cache.sync();
        mock.increment(Duration::from_secs(1)); // t1
        assert_eq!(cache.get(&"k"), Some(1)); // Hit(t1) queued
        mock.increment(Duration::from_secs(5)); // t2 = 6
        cache.insert("k", 2); // update at t2
        cache.sync(); // applies Hit(t1) after the update
        mock.increment(Duration::from_secs(6)); // t2 + 6 < t2 + 10
        assert!(cache.contains_key(&"k"), "C03: entry idle for 6s of a 10s tti was dropped");
        assert_eq!(cache.get(&"k"), Some(2));
    }

    // D5(b): the same late Hit drags a re-inserted key below the invalidate_all watermark.
    #[test]
    fn d5b_late_hit_must_not_hide_reinserted_key() {
        let mut cache = Cache::builder().max_capacity(100).build();
        cache.reconfigure_for_testing();
        let (clock, mock) = Clock::mock();
        cache.set_expiration_clock(Some(clock));
        let cache = cache;

        cache.insert("k", 1);
        cache.sync();
        mock.increment(Duration::from_secs(1)); // leave the periodic-sync window
        assert_eq!(cache.get(&"k"), Some(1)); // Hit(t0) queued
        mock.increment(Duration::from_secs(1));
        cache.invalidate_all();
        mock.increment(Duration::from_secs(1));
        cache.insert("k", 2);
        cache.sync();
        assert_eq!(cache.get(&"k"), Some(2), "C07: key re-inserted after invalidate_all vanished");
    }

    // D6b: a stale Upsert that is rejected removes a newer generation of the same key.
    #[test]
    fn d6b_stale_rejected_upsert_must_not_remove_newer_entry() {
        let mut cache = Cache::new(2);
        cache.reconfigure_for_testing();
        let (clock, mock) = Clock::mock();
        cache.set_expiration_clock(Some(clock));
        let cache = cache;
        cache.insert(1, 1);
        cache.insert(2, 2);
        cache.sync();
        mock.increment(Duration::from_secs(1)); // leave the periodic-sync window: ops stay queued
        cache.insert(3, 30); // Upsert(3a) queued
        cache.invalidate(&3); // Remove(3a) queued
        cache.invalidate(&1); // Remove(1) queued: frees one slot
        cache.insert(3, 31); // Upsert(3b) queued; map holds 3b
        cache.sync();
        assert_eq!(cache.get(&3), Some(31), "C03: insert that fits was dropped by a stale op");
        cache.sync();
        assert_eq!(cache.entry_count(), 2, "C10");
        assert_eq!(cache.iter().count(), 2);
    }

    // D6a: same through the oversize-reject arm.
    #[test]
    fn d6a_stale_oversize_upsert_must_not_remove_newer_entry() {
        let mut cache = Cache::builder()
            .max_capacity(5)
            .weigher(|_k: &u32, v: &u32| *v)
            .build();
        cache.reconfigure_for_testing();
        let (clock, mock) = Clock::mock();
        cache.set_expiration_clock(Some(clock));
        let cache = cache;
        cache.sync();
        mock.increment(Duration::from_secs(1)); // leave the periodic-sync window: ops stay queued
        cache.insert(7, 9); // oversize Upsert(7a) queued
        cache.invalidate(&7); // Remove(7a)
        cache.insert(7, 1); // fits; Upsert(7b) queued; map holds 7b
        cache.sync();
        assert_eq!(cache.get(&7), Some(1), "C03: insert that fits was dropped by a stale op");
        cache.sync();
        assert_eq!(cache.entry_count(), 1, "C10");
        assert_eq!(cache.weighted_size(), 1, "C10");
    }

    // D7: caller-controlled usize added without overflow check inside the library's own code.
    // (A request this large cannot be allocated; a panic raised by the map implementation or
    // the allocator is the caller's, an arithmetic overflow in mini-moka's own source is not.)
    #[test]
    fn d7_initial_capacity_add_must_not_overflow() {
        use std::sync::{Arc, Mutex};
        let loc = Arc::new(Mutex::new(String::new()));
        let loc2 = Arc::clone(&loc);
        let prev = std::panic::take_hook();
        std::panic::set_hook(Box::new(move |info| {
            if let Some(l) = info.location() {
                let mut g = loc2.lock().unwrap();
                if g.is_empty() {
                    *g = format!("{} {}", l.file(), info);
                }
            }
        }));
        let r = std::panic::catch_unwind(|| {
            let _c: Cache<u32, u32> = Cache::builder().initial_capacity(usize::MAX).build();
        });
        std::panic::set_hook(prev);
        let where_ = loc.lock().unwrap().clone();
        if r.is_err() {
            assert!(
                !(where_.starts_with("src/") && where_.contains("overflow")),
                "C08: arithmetic overflow in the library: {}",
                where_
            );
        }
    }

    // D9: an Upsert op whose entry was evicted from the map (as a victim) while the op was
    // still queued is admitted to the deques although it is not in the map any more.
    #[test]
    fn d9_upsert_of_evicted_entry_must_not_be_admitted() {
        let mut cache = Cache::new(3);
        cache.reconfigure_for_testing();
        let (clock, mock) = Clock::mock();
        cache.set_expiration_clock(Some(clock));
        let cache = cache;
        cache.insert("k", 1);
        cache.insert("a", 1);
        cache.insert("b", 1);
        cache.sync();
        mock.increment(Duration::from_secs(1)); // leave the periodic-sync window
        cache.get(&"k");
        cache.get(&"k");
        cache.get(&"a");
        cache.get(&"b");
        for _ in 0..3 {
            cache.get(&"c");
        }
        cache.sync(); // LRU order k, a, b; freq k=2 a=1 b=1 c=3
        cache.insert("c", 1); // Upsert(c) queued
        cache.insert("k", 2); // update of k queued behind it; map holds k=2 (dirty)
        cache.sync(); // c evicts k (victim), then the queued update of k is applied
        cache.sync();
        let held = cache.iter().count() as u64;
        assert_eq!(cache.entry_count(), held, "C10: entry_count vs entries held");
        assert_eq!(cache.weighted_size(), held, "C10: weighted_size vs entries held");
    }
}
