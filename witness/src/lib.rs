//! Type-level witnesses for mini-moka (C08, C16, C17): a violating *user program* must fail to
//! compile with a specific error code.  Each `compile_fail` doctest is paired with a compiling twin
//! that differs only in the offending line, so a witness whose path is merely wrong cannot pass.
//! Run with `cargo +nightly test --doc --offline` (stable ignores the error code).

/// W1: the single-threaded cache is not `Send`.
/// ```compile_fail,E0277
/// fn assert_send<T: Send>() {}
/// assert_send::<mini_moka::unsync::Cache<i32, i32>>();
/// ```
/// twin:
/// ```
/// fn assert_send<T: Send>() {}
/// assert_send::<mini_moka::sync::Cache<i32, i32>>();
/// ```
pub struct W1UnsyncNotSend;

/// W2: the single-threaded cache is not `Sync`.
/// ```compile_fail,E0277
/// fn assert_sync<T: Sync>() {}
/// assert_sync::<mini_moka::unsync::Cache<i32, i32>>();
/// ```
/// twin:
/// ```
/// fn assert_sync<T: Sync>() {}
/// assert_sync::<mini_moka::sync::Cache<i32, i32>>();
/// ```
pub struct W2UnsyncNotSync;

/// W3: a concurrent cache of non-`Send` keys is not `Send` (bounds of `unsafe impl Send for sync::Cache`).
/// ```compile_fail,E0277
/// fn assert_send<T: Send>() {}
/// assert_send::<mini_moka::sync::Cache<std::rc::Rc<i32>, i32>>();
/// ```
/// twin:
/// ```
/// fn assert_send<T: Send>() {}
/// assert_send::<mini_moka::sync::Cache<std::sync::Arc<i32>, i32>>();
/// ```
pub struct W3SyncKeyBound;

/// W4: a concurrent cache of non-`Sync` values is not `Sync`.
/// ```compile_fail,E0277
/// fn assert_sync<T: Sync>() {}
/// assert_sync::<mini_moka::sync::Cache<i32, std::cell::Cell<i32>>>();
/// ```
/// twin:
/// ```
/// fn assert_sync<T: Sync>() {}
/// assert_sync::<mini_moka::sync::Cache<i32, std::sync::atomic::AtomicI32>>();
/// ```
pub struct W4SyncValueBound;

/// W5: a concurrent cache of non-`Send` values is not `Send`, and of non-`Sync` keys not `Sync`.
/// ```compile_fail,E0277
/// fn assert_send<T: Send>() {}
/// assert_send::<mini_moka::sync::Cache<i32, std::rc::Rc<i32>>>();
/// ```
/// ```compile_fail,E0277
/// fn assert_sync<T: Sync>() {}
/// assert_sync::<mini_moka::sync::Cache<std::cell::Cell<i32>, i32>>();
/// ```
pub struct W5SyncOtherBounds;

/// W6: values that are not `Send + Sync` cannot even be inserted into the concurrent cache.
/// ```compile_fail,E0599
/// let c: mini_moka::sync::Cache<i32, std::rc::Rc<i32>> = mini_moka::sync::Cache::new(10);
/// c.insert(1, std::rc::Rc::new(1));
/// ```
/// twin:
/// ```
/// let c: mini_moka::sync::Cache<i32, std::sync::Arc<i32>> = mini_moka::sync::Cache::new(10);
/// c.insert(1, std::sync::Arc::new(1));
/// ```
pub struct W6SyncInsertBound;

/// W7: iterating the single-threaded cache borrows it: mutating while iterating does not compile.
/// ```compile_fail,E0502
/// let mut c = mini_moka::unsync::Cache::new(10);
/// c.insert(1, 1);
/// let it = c.iter();
/// c.insert(2, 2);
/// drop(it);
/// ```
/// twin:
/// ```
/// let mut c = mini_moka::unsync::Cache::new(10);
/// c.insert(1, 1);
/// let it = c.iter();
/// drop(it);
/// c.insert(2, 2);
/// ```
pub struct W7IterBorrows;

/// W8: a reference returned by unsync `get` keeps the cache mutably borrowed.
/// ```compile_fail,E0499
/// let mut c = mini_moka::unsync::Cache::new(10);
/// c.insert(1, String::from("a"));
/// let v = c.get(&1);
/// c.insert(1, String::from("b"));
/// println!("{:?}", v);
/// ```
/// twin:
/// ```
/// let mut c = mini_moka::unsync::Cache::new(10);
/// c.insert(1, String::from("a"));
/// let v = c.get(&1).cloned();
/// c.insert(1, String::from("b"));
/// println!("{:?}", v);
/// ```
pub struct W8GetBorrows;

/// W9: the sync iterator is `Send` only for `Send` keys and values (bounds of `unsafe impl Send for Iter`).
/// ```compile_fail,E0277
/// fn assert_send<T: Send>() {}
/// assert_send::<mini_moka::sync::Iter<'static, std::rc::Rc<i32>, i32, std::collections::hash_map::RandomState>>();
/// ```
/// twin:
/// ```
/// fn assert_send<T: Send>() {}
/// assert_send::<mini_moka::sync::Iter<'static, i32, i32, std::collections::hash_map::RandomState>>();
/// ```
pub struct W9IterSendBound;

/// W10: `Policy` exposes the configuration read-only (no public constructor / setters).
/// ```compile_fail,E0624
/// let _p = mini_moka::Policy::new(None, None, None);
/// ```
/// twin:
/// ```
/// let c: mini_moka::unsync::Cache<i32, i32> = mini_moka::unsync::Cache::new(7);
/// assert_eq!(c.policy().max_capacity(), Some(7));
/// ```
pub struct W10PolicyReadOnly;
