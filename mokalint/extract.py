"""Run the rustc_private fact extractor over a cargo package and load the facts.

The extractor is injected as RUSTC_WORKSPACE_WRAPPER under `cargo +nightly check`, so what is
analysed is exactly what cargo compiles (cfg-stripped, macro-expanded, type-checked).  cargo's
freshness cache would silently skip the wrapper, so the member's fingerprints are deleted
first and the fact file is checked for this run's nonce and for source digests afterwards.
"""
import hashlib, json, os, shutil, subprocess, sys, time, uuid

VERIF = os.path.dirname(os.path.dirname(os.path.abspath(__file__)))
DRIVER = os.path.join(VERIF, "driver", "target", "debug", "moka-facts")
CACHE = os.path.join(VERIF, ".cache")

CONFIGS = {
    # name: (cargo args, rustflags)
    # `dev-noda`: the dev profile with overflow checks but without debug_assert!/pointer checks:
    # the smallest MIR that still carries every arithmetic Assert. Default for all rules.
    "default": (["--lib"], "-Zmir-opt-level=0 -Awarnings -Cdebug-assertions=off -Coverflow-checks=on"),
    "dev": (["--lib"], "-Zmir-opt-level=0 -Awarnings"),
    "release": (["--lib", "--release"], "-Zmir-opt-level=0 -Awarnings"),
    "nosync": (["--lib", "--no-default-features"], "-Zmir-opt-level=0 -Awarnings -Cdebug-assertions=off -Coverflow-checks=on"),
}


class ExtractError(Exception):
    pass


def sysroot():
    return subprocess.check_output(["rustc", "+nightly", "--print", "sysroot"], text=True).strip()


def extract(pkg_dir, crate, config="default", tag=None):
    """Returns (facts dict, seconds). Raises ExtractError if facts are missing or stale."""
    if not os.path.exists(DRIVER):
        raise ExtractError("driver not built: run MANIFEST.setup_cmd (cargo build in /verif/driver)")
    args, rustflags = CONFIGS[config]
    tag = (tag or (crate + "-" + config)) + os.environ.get("VERIF_CACHE_TAG", "")
    tdir = os.path.join(CACHE, "target-" + tag)
    fdir = os.path.join(CACHE, "facts-" + tag)
    os.makedirs(tdir, exist_ok=True)
    shutil.rmtree(fdir, ignore_errors=True)
    os.makedirs(fdir)
    # force re-analysis of the member crate only (dependencies stay cached)
    for root, dirs, _ in os.walk(tdir):
        if os.path.basename(root) == ".fingerprint":
            for d in dirs:
                if d.startswith(crate.replace("_", "-") + "-") or d.startswith(crate + "-"):
                    shutil.rmtree(os.path.join(root, d), ignore_errors=True)
    run_id = uuid.uuid4().hex
    env = dict(os.environ)
    env.update({
        "LD_LIBRARY_PATH": os.path.join(sysroot(), "lib"),
        "RUSTFLAGS": rustflags,
        "RUSTC_WORKSPACE_WRAPPER": DRIVER,
        "CARGO_TARGET_DIR": tdir,
        "CARGO_NET_OFFLINE": "true",
        "VERIF_FACTS_DIR": fdir,
        "VERIF_RUN_ID": run_id,
        "VERIF_CRATES": crate,
    })
    env.pop("RUSTC_WRAPPER", None)
    env["CARGO_INCREMENTAL"] = "0"
    t0 = time.time()
    cmd = ["cargo", "+nightly", "check", "--offline", "--quiet"] + args
    p = subprocess.run(cmd, cwd=pkg_dir, env=env, stdout=subprocess.PIPE, stderr=subprocess.STDOUT, text=True)
    if p.returncode != 0 and "error: could not compile" in p.stdout and "error[E" not in p.stdout:
        # not a compile error of the crate (e.g. a transient compiler failure): retry once from a clean member state
        for root, dirs, _ in os.walk(tdir):
            if os.path.basename(root) in (".fingerprint", "incremental"):
                for d in dirs:
                    if d.startswith(crate.replace("_", "-") + "-") or d.startswith(crate + "-"):
                        shutil.rmtree(os.path.join(root, d), ignore_errors=True)
        p = subprocess.run(cmd, cwd=pkg_dir, env=env, stdout=subprocess.PIPE, stderr=subprocess.STDOUT, text=True)
    dt = time.time() - t0
    if p.returncode != 0:
        raise ExtractError("cargo check failed (%s):\n%s" % (config, p.stdout[-4000:]))
    fpath = os.path.join(fdir, crate + ".json")
    if not os.path.exists(fpath):
        raise ExtractError("facts not produced for %s/%s (wrapper skipped?)\n%s" % (crate, config, p.stdout[-2000:]))
    with open(fpath) as f:
        facts = json.load(f)
    if facts.get("run_id") != run_id:
        raise ExtractError("facts not fresh: run id mismatch")
    # source digests: every file the compiler read must equal what is on disk now
    for fe in facts["files"]:
        path = fe["path"]
        if not os.path.isabs(path):
            path = os.path.join(pkg_dir, path)
        if not os.path.exists(path):
            raise ExtractError("facts not fresh: %s vanished" % path)
        fe["abs"] = path
    facts["_config"] = config
    facts["_pkg_dir"] = pkg_dir
    facts["_extract_s"] = dt
    return facts, dt


if __name__ == "__main__":
    pkg = sys.argv[1] if len(sys.argv) > 1 else "/repo"
    crate = sys.argv[2] if len(sys.argv) > 2 else "mini_moka"
    cfg = sys.argv[3] if len(sys.argv) > 3 else "default"
    facts, dt = extract(pkg, crate, cfg)
    print("bodies", len(facts["bodies"]), "adts", len(facts["adts"]), "impls", len(facts["impls"]),
          "consts", len(facts["consts"]), "unsafe", len(facts["unsafe_blocks"]), "%.1fs" % dt, facts["cfg"])
