"""Admission / eviction / recency rules (C04, C12, C13): CMP-admit, SIB-admit, FLOW-admit-sums,
MUST-victim-counted, MUST-reject-touches-nothing, MUST-admit-or-remove, CMP-oversize, CMP-capacity,
CMP-evict, SCAN-from-front, MUST-recency, MUST-evict."""
from .core import RuleResult, CheckFailure
from .roles import ev_is, wrapper_kind, ts_name_kind, sync_ts_fields
from .roles import CHAN_RECV, recv_types
from .roles import named
from .kernel import norm
from .roles import get_roles, HASHMAP_REMOVE, DASHMAP_REMOVE
from .symex import fmt, subterms, PathLimit
from .rules_live import norm_literal, literals_of, has_call, has_field
from .rules_flow import lin, strip_cast
from .roles import upsert_role

def admits(ctx):
    return [(named(ctx, 'unsync.admit'), 'unsync'), (named(ctx, 'sync.admit'), 'sync')]


def _run(ctx, nid, **kw):
    ctx.body(nid)
    key = ('admitpaths', nid, tuple(sorted((k, str(v)) for k, v in kw.items())))
    if key in ctx.cache:
        return ctx.cache[key]
    sx = ctx.symex(**kw)
    try:
        ps = sx.run(nid)
    except PathLimit:
        raise CheckFailure('path limit exceeded in %s' % nid)
    ctx.cache[key] = ps
    return ps


def _cand_field(t, names):
    """term is a field of the candidate parameter (param 1) named in names"""
    t = strip_cast(t)
    return isinstance(t, tuple) and t and t[0] == 'fld' and t[1] == ('param', 1) and t[2] in names


def _mentions_cand(t):
    return any(x == ('param', 1) for x in subterms(t))


def _ordered_literals(p):
    return [norm_literal(c, v) for c, v in p.conds]


def _consumer_of(ctx, nid):
    for a, k in admits(ctx):
        if a == nid:
            return named(ctx, 'unsync.insert_handler' if k == 'unsync' else 'sync.upsert')
    return None


def _project(ctx, v, path):
    """Follow an access path (('fld', name) / ('payload', variant, idx)) into a returned aggregate; None if not determined."""
    for step in path:
        if not (isinstance(v, tuple) and v):
            return None
        if v[0] == 'aggr':
            if step[0] == 'payload':
                if v[2] != step[1] or step[2] >= len(v[3]):
                    return None
                v = v[3][step[2]]
            else:
                adt = ctx.prog.adts.get(norm(str(v[1])))
                names = None
                if adt:
                    for var in adt['variants']:
                        if var['name'] == v[2] or len(adt['variants']) == 1:
                            names = [f['name'] for f in var['fields']]
                idx = names.index(step[1]) if names and step[1] in names else (step[1] if isinstance(step[1], int) else None)
                if idx is None or idx >= len(v[3]):
                    return None
                v = v[3][idx]
        elif v[0] == 'tuple' and step[0] == 'fld' and isinstance(step[1], int) and step[1] < len(v[1]):
            v = v[1][step[1]]
        else:
            return None
    return v


def _tag_of(ctx, v):
    if isinstance(v, tuple) and v and v[0] == 'aggr':
        from .symex import STD_VARIANTS
        names = STD_VARIANTS.get(v[1])
        if names is None:
            adt = ctx.prog.adts.get(norm(str(v[1])))
            names = [x['name'] for x in adt['variants']] if adt else None
        if names and v[2] in names:
            return names.index(v[2])
    return None


def admission_verdict(ctx, nid):
    """How the consumer of the scan tells an admission from a rejection -- by what it then does: the value tests on the scan's result
    that lead to the candidate being linked (push to the access-order deque).  Returns f(ret) -> 'Admitted' | 'Rejected' | None.
    Independent of how the result is represented (two-variant enum, struct with an Option, ...)."""
    key = ('admission_verdict', nid)
    if key in ctx.cache:
        return ctx.cache[key]
    cons = _consumer_of(ctx, nid)
    pats = {'Admitted': [], 'Rejected': []}
    if cons and cons in ctx.prog.bodies:
        for p in _run(ctx, cons, inline_depth=2, loop_visits=2, inline_pred=lambda n_, bb, d: False if n_ == nid else None):
            if p.diverged:
                continue
            called = [e for e in p.events if e[0] == 'call' and e[1] == nid]
            if not called:
                continue
            R = called[0][6] if len(called[0]) > 6 else None
            lits = []
            for c, v in p.conds:
                if isinstance(c, tuple) and c[0] == 'discr' and isinstance(v, int):
                    x, path = c[1], []
                    while isinstance(x, tuple) and x and x[0] in ('fld', 'payload') and x != R:
                        path.append(('fld', x[2]) if x[0] == 'fld' else ('payload', x[2], x[3]))
                        x = x[1]
                    if x == R and R is not None:
                        lits.append((tuple(reversed(path)), v))
            pushed = any(ev_is(ctx, e, 'push', 'ao') for e in p.events) or any(
                e[0] == 'call' and e[1] in ctx.prog.bodies and (wrapper_kind(ctx, e[1]) or (None,))[0] == 'push' for e in p.events)
            if lits:
                pats['Admitted' if pushed else 'Rejected'].append(tuple(lits))

    def f(ret):
        for verdict in ('Admitted', 'Rejected'):
            for lits in pats[verdict]:
                ok = True
                for path, want in lits:
                    t = _tag_of(ctx, _project(ctx, ret, path))
                    if t is None or t != want:
                        ok = False
                        break
                if ok:
                    return verdict
        return None
    ctx.cache[key] = f
    return f


def admit_summary(ctx, nid):
    """Per return path of an admission scan: verdict, last weight literal, last frequency literal, accumulators."""
    rows = []
    for p in _run(ctx, nid, inline_depth=3, loop_visits=2):
        if p.diverged or not (isinstance(p.ret, tuple) and p.ret[0] == 'aggr'):
            continue
        verdict = admission_verdict(ctx, nid)(p.ret) or p.ret[2]
        lastW = lastF = None
        loopW = []
        for t, v in _ordered_literals(p):
            if not (isinstance(t, tuple) and t[0] == 'cmp'):
                continue
            a, b = t[2], t[3]
            if _cand_field(a, ('weight', 'policy_weight')) or _cand_field(b, ('weight', 'policy_weight')):
                lastW = (t, v)
                loopW.append((t, v))
            if _cand_field(a, ('freq',)) or _cand_field(b, ('freq',)):
                lastF = (t, v)
        # final aggregates of the scanned victims: the local accumulator of the candidate's type
        b = ctx.prog.bodies[nid]
        agg = None
        for i, l in enumerate(b.locals):
            if i > b.argc and 'EntrySizeAndFrequency' in l['ty']['s'] and not l['ty']['s'].startswith('&'):
                v = p.env.get(i)
                if isinstance(v, tuple) and v and v[0] == 'aggr':
                    agg = v
        rows.append({'path': p, 'verdict': verdict, 'W': lastW, 'F': lastF, 'allW': loopW, 'agg': agg})
    return rows


def rule_cmp_admit(ctx):
    r = RuleResult('CMP-admit', 'admission decision == (candidate.weight <= victims.weight) AND (victims.freq < candidate.freq), strict in '
                   'popularity, evaluated last on final aggregates; the scan continues only while victims.weight < candidate.weight '
                   '(shortest prefix) and stops early when candidate.freq < victims.freq; both caches agree (SIB)')
    prog = ctx.prog
    shapes = {}
    for nid, kind in admits(ctx):
        if nid not in prog.bodies:
            continue
        rows = admit_summary(ctx, nid)
        n_adm = n_rej = 0
        sig = set()
        for row in rows:
            W, F, verdict = row['W'], row['F'], row['verdict']
            def shape(lit, names):
                if lit is None:
                    return None
                t, v = lit
                a, b = t[2], t[3]
                side = 'cand<=vict' if _cand_field(a, names) and not _mentions_cand(b) else ('vict<=cand' if _cand_field(b, names) and not _mentions_cand(a) else 'other')
                return (side, v)
            sw = shape(W, ('weight', 'policy_weight'))
            sf = shape(F, ('freq',))
            sig.add((verdict, sw, sf))
            if verdict == 'Admitted':
                n_adm += 1
                ok = sw == ('cand<=vict', True) and sf == ('cand<=vict', False)
                r.instance(function=nid, verdict=verdict, last_weight_test=fmt(W[0]) + '==' + str(W[1]) if W else None,
                           last_freq_test=fmt(F[0]) + '==' + str(F[1]) if F else None, ok=ok)
                if not ok:
                    what = []
                    if sw != ('cand<=vict', True):
                        what.append('weight conjunct is %s (expected candidate.weight <= victims.weight == true as the final test)' % (sw,))
                    if sf != ('cand<=vict', False):
                        what.append('popularity conjunct is %s (expected candidate.freq <= victims.freq == false, i.e. strictly more popular)' % (sf,))
                    r.violate(nid, 'admit-decision', ';'.join(str(x) for x in (sw, sf)), 'an Admitted path of %s: %s' % (nid, '; '.join(what)), where=ctx.where(nid),
                              path=[fmt(t)[:70] + ' == ' + str(v) for t, v in _ordered_literals(row['path'])][-8:],
                              expected='victims.weight >= candidate.weight && candidate.freq > victims.freq')
            else:
                n_rej += 1
                ok = (sw == ('cand<=vict', False)) or (sw == ('cand<=vict', True) and sf == ('cand<=vict', True)) or \
                     (sw is not None and sw[0] == 'cand<=vict' and sf == ('cand<=vict', True))
                r.instance(function=nid, verdict=verdict, last_weight_test=fmt(W[0]) + '==' + str(W[1]) if W else None,
                           last_freq_test=fmt(F[0]) + '==' + str(F[1]) if F else None, ok=ok)
                if not ok:
                    r.violate(nid, 'reject-decision', ';'.join(str(x) for x in (sw, sf)), 'a Rejected path of %s is not explained by weight-not-reached or not-more-popular (%s, %s)' % (nid, sw, sf),
                              where=ctx.where(nid), expected='reject iff !(victims.weight >= candidate.weight && candidate.freq > victims.freq)')
        shapes[kind] = sig
        if (n_adm < 1 or n_rej < 2) and not r.violations:
            raise CheckFailure('CMP-admit: %s has %d admitted / %d rejected paths' % (nid, n_adm, n_rej))
        # every branch of the scan is one of: weight reached, candidate less popular, no more victims / map lookup,
        # (sync) retry limit -- any other condition lets the scan stop early or skip residents
        for row in rows:
            for t, v in _ordered_literals(row['path']):
                if not isinstance(t, tuple):
                    continue
                okc = False
                if t[0] == 'discr':
                    okc = True      # Option / enum tests: next victim, map lookup, region
                elif t[0] == 'cmp':
                    a, b_ = t[2], t[3]
                    okc = _cand_field(a, ('weight', 'policy_weight', 'freq')) or _cand_field(b_, ('weight', 'policy_weight', 'freq')) or \
                        (a == ('c', 5) or b_ == ('c', 5))
                elif 'is_dirty' in fmt(t) and any(isinstance(x, tuple) and x and x[0] == 'call' and str(x[1]) in ('dashmap::DashMap::get', 'std::collections::HashMap::get')
                                                  for x in subterms(t)):
                    # a victim with a pending update (dirty flag of the entry the map holds for the node's key) is skipped like a missing
                    # one: its shared weight is not the counted one (FLOW-counters: removal-of-pending-update)
                    okc = True
                if not okc:
                    r.instance(function=nid, unrecognised_scan_condition=fmt(t)[:80])
                    r.violate(nid, 'scan-extra-condition', fmt(t)[:60], 'the admission scan of %s branches on `%s`, which is none of: victims.weight < candidate.weight, candidate.freq < victims.freq, '
                              'end of the deque / map lookup, retry limit: the aggregated prefix is no longer the shortest LRU prefix covering the candidate' % (nid, fmt(t)[:80]), where=ctx.where(nid))
        # loop-continue and early-exit conditions: first literals on paths
        firstW = set()
        firstF = set()
        for row in rows:
            lits = [l for l in _ordered_literals(row['path']) if isinstance(l[0], tuple) and l[0][0] == 'cmp']
            for t, v in lits[:1]:
                firstW.add((_cand_field(t[3], ('weight', 'policy_weight')) and not _mentions_cand(t[2]), _cand_field(t[2], ('weight', 'policy_weight')), v))
        # scan continues iff victims.weight < candidate.weight : lt(vw, cw)==True -> norm (le(cw, vw), False)
        cont_ok = all((a2 and not a1) for a1, a2, v in firstW) if firstW else False
        r.instance(function=nid, loop_condition_literals=sorted(str(x) for x in firstW), canonical=cont_ok)
        if not cont_ok:
            r.violate(nid, 'scan-condition', 'loop', 'the victim scan of %s is not guarded by `victims.weight < candidate.weight` (found %s): it may take more victims than needed' % (nid, sorted(firstW)),
                      where=ctx.where(nid), expected='while victims.weight < candidate.weight')
    if len(shapes) == 2:
        same = shapes['sync'] == shapes['unsync']
        r.instance(sibling_check='sync vs unsync decision shapes', equal=same)
        if not same:
            d = sorted(str(x) for x in shapes['sync'] ^ shapes['unsync'])
            r.violate('sync::base_cache::Inner::admit', 'sibling-mismatch', 'admit', 'the sync and unsync admission scans decide differently: %s' % d[:4])
    return r


def rule_flow_admit_sums(ctx):
    r = RuleResult('FLOW-admit-sums', 'victims.freq is the (+) sum of sketch.frequency(hash stored in the victim\'s own node) over exactly the scanned victims '
                   'that were found in the map; victims.weight the (+) sum of those victims\' weights; every such victim is also recorded in the '
                   'victim list; the candidate\'s freq is the sketch frequency of the candidate\'s own hash')
    prog = ctx.prog
    R = get_roles(ctx)
    for nid, kind in admits(ctx):
        if nid not in prog.bodies:
            continue
        rows = admit_summary(ctx, nid)
        n = 0
        for row in rows:
            p = row['path']
            # scanned victims found in the map on this path
            hits = []
            for e in p.events:
                if e[0] == 'call' and str(e[1]) in ('std::collections::HashMap::get', 'dashmap::DashMap::get'):
                    res = e[6] if len(e) > 6 else ('call', e[1], e[2])
                    tag = None
                    for c, v in p.conds:
                        if c == ('discr', res):
                            tag = v
                    if kind == 'unsync' and tag is None:
                        tag = 1   # .expect(): the miss path diverges
                    # found but skipped because an update of it is pending: not a victim
                    from .rules_live import literals_of as _lo
                    skipped_dirty = any(v is True and isinstance(c, tuple) and 'is_dirty' in fmt(c) and any(x == res for x in subterms(c)) for c, v in _lo(p.conds))
                    if tag == 1 and not skipped_dirty:
                        hits.append((e, res))
            # recorded: pushed to a node list, or handed to the caller's visitor (an `FnMut(node)` parameter)
            def _is_node(a_):
                while isinstance(a_, tuple) and a_ and a_[0] == 'payload':
                    a_ = a_[1]
                return isinstance(a_, tuple) and a_ and a_[0] == 'call' and (a_[1] in R.front or a_[1] in R.succ)
            pushes = [e for e in p.events if e[0] == 'call' and (str(e[1]).endswith('::push') or
                                                                  ((e[1] == 'callback' or str(e[1]).endswith(('::call_mut', '::call'))) and e[2] and
                                                                   isinstance(e[2][0], tuple) and e[2][0] and e[2][0][0] == 'param' and
                                                                   any(_is_node(y) for a_ in e[2][1:] for y in ([a_] + (list(a_[1]) if isinstance(a_, tuple) and a_ and a_[0] == 'tuple' else [])))))]
            agg = row['agg']
            if agg is None:
                raise CheckFailure('FLOW-admit-sums: victims accumulator not found in %s' % nid)
            adt = prog.adts.get(agg[1])
            fn = [f['name'] for f in adt['variants'][0]['fields']]
            vals = dict(zip(fn, agg[3]))
            vf = vals.get('freq')
            vw = vals.get('weight', vals.get('policy_weight'))
            fatoms = lin(vf) if vf is not None else []
            watoms = lin(vw) if vw is not None else []
            n += 1
            bad = []
            # every frequency atom: + frequency(sketch, hash of a victim node)
            for s_, a in fatoms:
                a0 = strip_cast(a)
                freq_fns = R.sketch_write | {x for x in prog.bodies if x.endswith('FrequencySketch::frequency')}
                is_est = isinstance(a0, tuple) and a0[0] == 'call' and (a0[1] in freq_fns or _is_estimator_param(ctx, nid, a0, freq_fns))
                okf = s_ == 1 and is_est and \
                    any(isinstance(x, tuple) and x and ((x[0] == 'fld' and x[2] == 'hash') or (x[0] == 'call' and str(x[1]).endswith('::hash'))) and
                        any(isinstance(y, tuple) and y and y[0] == 'fld' and y[2] == 'element' for y in subterms(x)) for x in subterms(a0))
                if not okf:
                    bad.append('frequency term %s' % fmt(a0)[:70])
            if len(fatoms) != len(hits):
                bad.append('%d victim(s) found in the map but %d frequency contribution(s)' % (len(hits), len(fatoms)))
            if len(watoms) != len(hits):
                bad.append('%d victim(s) found in the map but %d weight contribution(s)' % (len(hits), len(watoms)))
            if any(s_ != 1 for s_, a in watoms):
                bad.append('negative weight contribution')
            # victim list
            vic_pushes = [e for e in pushes if any(isinstance(x, tuple) and x and x[0] == 'call' and (x[1] in R.front or x[1] in R.succ) for a in e[2] for x in subterms(a))]
            if kind == 'unsync' and len(vic_pushes) != len(hits):
                bad.append('%d victim(s) counted but %d recorded in the victim list' % (len(hits), len(vic_pushes)))
            if kind == 'sync':
                # every node the scan LOOKS UP in the map is recorded, as a victim or as skipped (a pointer that was merely fetched before an
                # exit test is not a scanned node)
                nodes = [e for e in p.events if e[0] == 'call' and str(e[1]) in ('dashmap::DashMap::get', 'dashmap::DashMap::get_mut') and
                         any(isinstance(x, tuple) and x and x[0] == 'call' and (x[1] in R.front or x[1] in R.succ) for a in e[2] for x in subterms(a))]
                if len(vic_pushes) != len(nodes):
                    bad.append('%d node(s) scanned but %d recorded as victim or skipped' % (len(nodes), len(vic_pushes)))
            r.instance(function=nid, verdict=row['verdict'], victims_in_map=len(hits), freq_terms=len(fatoms), weight_terms=len(watoms), ok=not bad)
            for bmsg in bad[:2]:
                r.violate(nid, 'victim-aggregation', bmsg.split(' ')[0] + str(len(fatoms)) + str(len(hits)), 'a path of %s aggregates its victims wrongly: %s' % (nid, bmsg), where=ctx.where(nid),
                          expected='each scanned victim found in the map contributes +frequency(its hash) and +its weight exactly once and is listed')
        if n < 3 and not r.violations:
            raise CheckFailure('FLOW-admit-sums: only %d decision paths in %s' % (n, nid))
        # the victim list only grows: a node that was counted into the aggregates is never taken off the list again (the verdict and the
        # weight handed to the caller were computed with it)
        TAKERS = ('remove', 'swap_remove', 'pop', 'truncate', 'clear', 'retain', 'retain_mut', 'drain', 'split_off', 'dedup', 'dedup_by', 'dedup_by_key')
        group = [prog.bodies[nid]] + [bc for bc in prog.bodies.values() if bc.kind == 'closure' and bc.root == nid]
        nlist = 0
        for bx in group:
            for _, t in bx.calls():
                a0 = str((t.get('args') or [{}])[0].get('pty') or '')
                if 'DeqNode' in a0 and ('SmallVec' in a0 or 'Vec<' in a0):
                    nlist += 1
                    cal = norm(str(t.get('callee') or ''))
                    if cal.split('::')[-1] in TAKERS:
                        r.violate(nid, 'victim-unlisted', cal.split('::')[-1], '%s takes nodes off the victim list again (%s) after they were counted into victims.weight / victims.freq: the '
                                  'verdict and the weight given back to the caller no longer describe the entries that are removed' % (nid, cal), where=ctx.where(nid, t.get('line')),
                                  expected='the victim list is exactly the scanned victims, in scan order')
        r.instance(function=nid, victim_list_operations=nlist, only_grows=True)
    # candidate frequency origin, at the callers
    for caller, hname in ((named(ctx, 'unsync.insert_handler'), 'hash'), (named(ctx, 'sync.upsert'), None)):
        if caller not in prog.bodies:
            continue
        b = prog.bodies[caller]
        for p in _run(ctx, caller, inline_depth=2, loop_visits=2, inline_pred=lambda n_, bb, d: False if ('handle_remove' in n_ or n_.endswith('handle_admit')) else None):
            if p.diverged:
                continue
            for e in p.events:
                if e[0] == 'call' and e[1] in [a for a, _ in admits(ctx)]:
                    cand = e[2][0]
                    fr = [x for x in subterms(cand) if isinstance(x, tuple) and x and x[0] == 'call' and str(x[1]).endswith('FrequencySketch::frequency')]
                    # own hash: (sync) taken from the op's key-hash field, (unsync) the handler's hash parameter
                    key_t_ = (upsert_role(ctx) or {}).get('key_t') if not caller.startswith('unsync::') else None
                    ok = len(fr) == 1 and any((isinstance(y, tuple) and y and y[0] == 'param' and b.local_name(y[1]) in ('hash', 'kh')) or (key_t_ is not None and y == key_t_)
                                              for y in subterms(fr[0][2][1]))
                    # the candidate's weight is the inserted entry's weight, unmodified
                    cw = cand[3][0] if isinstance(cand, tuple) and cand[0] == 'aggr' and cand[3] else None
                    cw0 = strip_cast(cw) if cw is not None else None
                    wok = (isinstance(cw0, tuple) and cw0[0] == 'param' and b.local_ty(cw0[1])['s'] == 'u32' and caller.startswith('unsync::')) or \
                        (not caller.startswith('unsync::') and cw0 == (upsert_role(ctx) or {}).get('new_t'))
                    if not wok:
                        r.violate(caller, 'candidate-weight', 'weight', 'the candidate passed to the admission scan weighs `%s` instead of the inserted entry\'s own weight: the prefix it must beat is too short / long' % fmt(cw)[:80],
                                  where=ctx.where(caller, e[3]), expected='EntrySizeAndFrequency::new(policy_weight)')
                    r.instance(function=caller, candidate=fmt(cand)[:90], candidate_freq_from_own_hash=ok, candidate_weight_is_own=wok)
                    if not ok:
                        r.violate(caller, 'candidate-frequency', 'hash', 'the candidate passed to the admission scan does not carry frequency(own hash) exactly once: %s' % fmt(cand)[:100],
                                  where=ctx.where(caller, e[3]))
                    break
    # the hash an insert hands on (it is stored in the entry's queue node and read back when the entry is a victim, or carried by the write op to
    # the candidate's frequency) is the hasher applied to the inserted key -- on every path, whatever the state of the estimator
    hash_fns = {n_ for n_ in prog.bodies if 'std::hash::BuildHasher::hash_one' in R.ext_calls.get(n_, ())}
    hash_like = hash_fns | {n_ for n_ in prog.bodies if prog.bodies[n_].kind != 'closure' and len(prog.bodies[n_].blocks) <= 8 and (prog.callees(n_) & hash_fns)}
    for pubins in ('unsync::cache::Cache::insert', 'sync::cache::Cache::insert'):
        if pubins not in prog.bodies:
            continue
        seen_sites = set()
        try:
            ips = _run(ctx, pubins, inline_depth=1, loop_visits=2, inline_pred=lambda n_, bb, d: False)
        except PathLimit:
            continue
        for p in ips:
            if p.diverged:
                continue
            for e in p.events:
                if e[0] != 'call' or e[1] not in prog.bodies or e[1] in hash_like:
                    continue
                cb = prog.bodies[e[1]]
                hp = [i for i in range(1, cb.argc + 1) if cb.local_name(i) == 'hash' and cb.local_ty(i)['s'] == 'u64']
                if not hp or len(e[2]) < hp[0]:
                    continue
                a_ = e[2][hp[0] - 1]
                ok = any(isinstance(x, tuple) and x and x[0] == 'call' and (x[1] in hash_like or str(x[1]) == 'std::hash::BuildHasher::hash_one') for x in subterms(a_))
                if (e[3], fmt(a_)) in seen_sites:
                    continue
                seen_sites.add((e[3], fmt(a_)))
                r.instance(function=pubins, passes_hash_to=e[1], hash=fmt(a_)[:60], is_hash_of_key=ok)
                if not ok:
                    r.violate(pubins, 'node-hash', 'hash', 'a path of %s hands `%s` to %s as the hash of the inserted key: the frequency read back for this entry (as a victim / as the candidate) is '
                              'that of another key' % (pubins, fmt(a_)[:50], e[1]), where=ctx.where(pubins, e[3]), path=[fmt(c)[:60] + ' == ' + str(v) for c, v in p.conds][:6],
                              expected='self.hash(&key) on every path')
    return r


def rule_admission_outcomes(ctx):
    r = RuleResult('MUST-admit-or-remove', 'in the insert handlers: when the candidate does not fit, every path ends either with the candidate admitted '
                   'and every listed victim removed from map and deques, or with the candidate removed from the map and NO resident touched; an '
                   'oversize candidate (weight > max_capacity, strict) is rejected before admission is evaluated; the fits-test is '
                   'weighted_size + weight <= max_capacity (inclusive)')
    prog = ctx.prog
    R = get_roles(ctx)
    for nid, kind in ((named(ctx, 'unsync.insert_handler'), 'unsync'), (named(ctx, 'sync.upsert'), 'sync')):
        if nid not in prog.bodies:
            continue
        b = prog.bodies[nid]
        if kind == 'sync':
            from .roles import upsert_role
            ur = upsert_role(ctx)
            wp = [ur['new_t']] if ur and ur['nid'] == nid else []
        else:
            wp = [('param', i) for i in range(1, b.argc + 1) if b.local_ty(i)['s'] == 'u32']
        if len(wp) != 1:
            raise CheckFailure('MUST-admit-or-remove: weight parameter of %s not found' % nid)
        W = wp[0]
        remove_set = HASHMAP_REMOVE if kind == 'unsync' else DASHMAP_REMOVE
        # helpers of the handler that lead to the admission scan are part of the handler (a loop in them does not make them opaque)
        adm_fns = {a_ for a_, _k in admits(ctx)}
        leads = {x for x in prog.reachable_from([nid]) if x != nid and x not in adm_fns and prog.bodies[x].kind != 'closure' and
                 (prog.reachable_from([x]) & adm_fns) and x.startswith(kind + '::')}
        paths = [p for p in _run(ctx, nid, inline_depth=3 + min(len(leads), 2), loop_visits=2,
                                 inline_pred=lambda n_, bb, d, _l=frozenset(leads): False if ('handle_remove' in n_) else (True if n_ in _l else None)) if not p.diverged]
        n = 0
        for p in paths:
            lits = _ordered_literals(p)
            fits = None
            oversize = None
            for t, v in lits:
                if isinstance(t, tuple) and t[0] == 'cmp' and t[1] == 'le':
                    a, c = t[2], t[3]
                    la = lin(a)
                    if has_field(c, ('max_capacity',)) and any(strip_cast(x) == W for s_, x in la) and any(has_field(x, ('weighted_size',)) for s_, x in la):
                        fits = v
                        if not (len(la) == 2 and all(s_ == 1 for s_, x in la)):
                            r.violate(nid, 'fits-test-shape', fmt(t)[:60], 'the fits test of %s is `%s`' % (nid, fmt(t)), where=ctx.where(nid), expected='weighted_size + weight <= max_capacity')
                    elif has_field(c, ('max_capacity',)) and strip_cast(a) == W:
                        oversize = (not v)          # le(w, max) == False  <=>  w > max
                    elif has_field(a, ('max_capacity',)) and strip_cast(c) == W:
                        # le(max, w): from `w >= max` -- non-strict oversize test
                        r.violate(nid, 'oversize-test-shape', fmt(t)[:60], 'the oversize test of %s is `%s` == %s: a candidate whose weight EQUALS max_capacity is treated as too big' % (nid, fmt(t), v),
                                  where=ctx.where(nid), expected='policy_weight > max_capacity (strict)')
                        oversize = v
            unbounded = any(isinstance(t, tuple) and t[0] == 'discr' and has_field(t[1], ('max_capacity',)) and v == 0 and
                            not any(isinstance(x, tuple) and x and x[0] in ('call', 'bin') for x in subterms(t[1])) for t, v in lits)
            pushes = [e for e in p.events if ev_is(ctx, e, 'push', 'ao')]
            removals = [e for e in p.events if e[0] == 'call' and e[1] in remove_set]
            admit_calls = [e for e in p.events if e[0] == 'call' and e[1] in [a for a, _ in admits(ctx)]]
            cand_removed = [e for e in removals if len(e[2]) > 1 and any(isinstance(x, tuple) and x and x[0] == 'param' for x in subterms(e[2][1])) and
                            not any(isinstance(x, tuple) and x and x[0] == 'call' and x[1] in [a for a, _ in admits(ctx)] for x in subterms(e[2][1]))]
            res_removed = [e for e in removals if e not in cand_removed]
            if kind == 'sync':
                # already-admitted (update) and stale-op paths are not admission attempts
                first_adm = None
                for t, v in lits:
                    if isinstance(t, tuple) and t[0] == 'call' and str(t[1]).endswith('::load') and 'is_admitted' in fmt(t) and first_adm is None:
                        first_adm = v
                if first_adm is True:
                    continue
                stale = not any(e[0] == 'call' and str(e[1]) == 'dashmap::DashMap::get' for e in p.events) or \
                    (not pushes and not removals and not admit_calls and fits is None and oversize is None)
                if stale and not pushes:
                    continue
            n += 1
            verdict = None
            if admit_calls:
                res = admit_calls[0][6] if len(admit_calls[0]) > 6 else None
                for t, v in p.conds:
                    if t == ('discr', res):
                        verdict = v
            outcome = 'admitted' if pushes else ('candidate-removed' if cand_removed else 'NOTHING')
            ok = True
            why = ''
            if fits is True or unbounded:
                ok = bool(pushes) and not removals
                why = 'fits => admitted unconditionally, nothing removed'
            elif oversize is True:
                ok = (not pushes) and bool(cand_removed) and not res_removed and not admit_calls
                why = 'oversize => candidate removed, admission not evaluated, residents untouched'
            elif admit_calls:
                if pushes:
                    ok = True
                    why = 'admitted after the scan'
                else:
                    ok = bool(cand_removed) and not res_removed
                    why = 'rejected => only the candidate leaves the map'
            else:
                ok = False
                why = 'candidate neither fits, nor oversize, nor scanned'
            r.instance(function=nid, fits=fits, oversize=oversize, unbounded=unbounded, outcome=outcome, residents_removed=len(res_removed), rule=why, ok=ok)
            if not ok:
                r.violate(nid, 'admission-outcome', '%s|fits=%s|oversize=%s|res=%d' % (outcome, fits, oversize, len(res_removed)),
                          'a path of %s ends with outcome `%s` (fits=%s, oversize=%s, residents removed=%d) -- expected: %s' % (nid, outcome, fits, oversize, len(res_removed), why),
                          where=ctx.where(nid), path=[fmt(t)[:60] + '==' + str(v) for t, v in lits][:8])
        if n < 4 and not r.violations:
            raise CheckFailure('MUST-admit-or-remove: only %d admission paths in %s' % (n, nid))
    # CMP-capacity: the fits predicate itself
    for nid in (named(ctx, 'unsync.has_capacity'), named(ctx, 'sync.has_capacity')):
        if nid not in prog.bodies:
            if nid.startswith('unsync::') or ctx.has_sync:
                raise CheckFailure('CMP-capacity: the capacity predicate (%s) was not found' % nid)
            continue
        for p in _run(ctx, nid, inline_depth=2):
            if p.diverged:
                continue
            ret = p.ret
            if isinstance(ret, tuple) and ret[0] == 'cmp':
                la = lin(ret[2])
                ok = ret[1] == 'le' and _is_capacity(ctx, r, nid, ret[3]) and len(la) == 2 and all(s_ == 1 for s_, x in la) and \
                    any(isinstance(strip_cast(x), tuple) and strip_cast(x)[0] == 'param' and prog.bodies[nid].local_ty(strip_cast(x)[1])['s'] == 'u32' for s_, x in la)
                r.instance(function=nid, predicate=fmt(ret), ok=ok)
                if not ok:
                    r.violate(nid, 'capacity-predicate', fmt(ret)[:60], 'the capacity predicate is `%s`' % fmt(ret), where=ctx.where(nid), expected='weighted_size + candidate_weight <= max_capacity')
    return r


def _is_estimator_param(ctx, nid, t, freq_fns):
    """`t` is a call of a function-typed parameter of nid (`estimate: impl Fn(u64) -> u8`), and every caller passes a closure that returns the
    sketch's frequency of exactly the hash it is given."""
    if not (t[1] == 'callback' or str(t[1]).endswith(('::call', '::call_mut', '::call_once'))) or not t[2]:
        return False
    f0 = t[2][0]
    if not (isinstance(f0, tuple) and f0 and f0[0] == 'param'):
        return False
    key = ('estimator-param', nid, f0[1])
    if key not in ctx.cache:
        prog = ctx.prog
        ok, sites = True, 0
        for c_ in sorted(prog.callers().get(nid, ())):
            bc = prog.bodies[c_]
            for bi_, t_ in bc.calls():
                if nid not in prog.call_targets(bc, t_)[0] or f0[1] - 1 >= len(t_['args']):
                    continue
                sites += 1
                clos = prog.closure_of_operand(bc, t_['args'][f0[1] - 1])
                good = False
                for cl in clos:
                    try:
                        ps = [q for q in ctx.symex(inline_depth=1, loop_visits=2).run(cl) if not q.diverged]
                    except PathLimit:
                        ps = []
                    good = bool(ps) and all(isinstance(q.ret, tuple) and q.ret and q.ret[0] == 'call' and q.ret[1] in freq_fns and
                                            any(isinstance(a_, tuple) and a_ and a_[0] == 'param' for a_ in q.ret[2][1:]) for q in ps)
                ok = ok and good
        ctx.cache[key] = ok and sites > 0
    return ctx.cache[key]


def _is_capacity(ctx, r, nid, t, field='max_capacity'):
    """Is term `t` (inside role function nid) the configured capacity (resp. the weighted size): the field itself, or (the payload of) a
    parameter that every call site fills with that field."""
    if has_field(t, (field,)):
        return True
    prog = ctx.prog
    b = prog.bodies[nid]
    t0 = strip_cast(t)
    while isinstance(t0, tuple) and t0 and t0[0] == 'payload':
        t0 = t0[1]
    if not (isinstance(t0, tuple) and t0 and t0[0] == 'param' and b.local_ty(t0[1])['s'].lstrip('&') == ('std::option::Option<u64>' if field == 'max_capacity' else 'u64')):
        return False
    key = ('cap-param', nid, t0[1], field)
    if key not in ctx.cache:
        ok, sites = True, 0
        for c in sorted(prog.callers().get(nid, ())):
            root = prog.bodies[c].root or c
            try:
                ps = ctx.symex(inline_depth=3, loop_visits=2, inline_pred=lambda n_, bb, d, _n=nid: False if n_ == _n else None).run(root)
            except PathLimit:
                raise CheckFailure('capacity argument of %s: path limit in caller %s' % (nid, root))
            for p in ps:
                for e in p.events:
                    if e[0] == 'call' and e[1] == nid and len(e[2]) >= t0[1]:
                        sites += 1
                        if not has_field(e[2][t0[1] - 1], (field,)):
                            ok = False
                            r.violate(root, 'capacity-argument', nid.split('::')[-1] + ':' + field, '%s hands `%s` to %s as the %s: not the cache\'s %s' % (
                                root, fmt(e[2][t0[1] - 1])[:60], nid, 'capacity' if field == 'max_capacity' else 'current size', field), where=ctx.where(root, e[3]), expected='self.' + field)
        r.instance(function=nid, capacity_from_parameter=t0[1], call_sites_checked=sites, ok=ok and sites > 0)
        ctx.cache[key] = ok and sites > 0
    return ctx.cache[key]


from .rules_flow import _has_counters as _hc


def rule_cmp_evict(ctx):
    r = RuleResult('CMP-evict', 'both over-capacity eviction loops stop as soon as evicted >= weights_to_evict (with weights_to_evict = weighted_size '
                   'saturating_sub max_capacity, 0 when unbounded), remove the node at the FRONT of the probation deque, and add each removed '
                   "entry's weight to `evicted`; every unsync mutating operation runs the eviction before its own work and the maintenance run "
                   'runs it after applying writes, guarded only by weights_to_evict > 0')
    prog = ctx.prog
    R = get_roles(ctx)
    for nid, kind in ((named(ctx, 'unsync.evict_lru'), 'unsync'), (named(ctx, 'sync.evict_lru'), 'sync')):
        if nid not in prog.bodies:
            continue
        b = prog.bodies[nid]
        paths = [p for p in _run(ctx, nid, inline_depth=3, loop_visits=2, inline_pred=lambda n_, bb, d: False if ('handle_remove' in n_ or 'try_skip' in n_) else None) if not p.diverged]
        # the excess handed in by the maintenance run: the u64 parameter (batch_size is usize)
        wte_param = [i for i in range(1, b.argc + 1) if b.local_ty(i)['s'] == 'u64'] if kind == 'sync' else []
        seen_exit = seen_rm = 0
        for p in paths:
            for t, v in _ordered_literals(p):
                if not (isinstance(t, tuple) and t[0] == 'cmp' and t[1] == 'le'):
                    continue
                a, c = t[2], t[3]

                def is_wte(x):
                    x = strip_cast(x)
                    if wte_param and x == ('param', wte_param[0]):
                        return True
                    return isinstance(x, tuple) and x and x[0] == 'bin' and x[1] == 'saturating_sub' and has_field(x[2], ('weighted_size',)) and has_field(x[3], ('max_capacity',)) or x == ('c', 0) and False
                if is_wte(a) and not is_wte(c):
                    # le(wte, evicted) : canonical exit test
                    seen_exit += 1
                    la = lin(c)
                    okacc = all(s_ == 1 for s_, x in la)
                    r.instance(function=nid, exit_test=fmt(t)[:80] + '==' + str(v), canonical=True, accumulator_additive=okacc)
                    if not okacc:
                        r.violate(nid, 'evicted-accumulator', fmt(c)[:50], 'the evicted-weight accumulator of %s is not an additive sum: %s' % (nid, fmt(c)), where=ctx.where(nid))
                elif is_wte(c) and not is_wte(a) and not (a == ('c', 0)):
                    seen_exit += 1
                    r.instance(function=nid, exit_test=fmt(t)[:80] + '==' + str(v), canonical=False)
                    r.violate(nid, 'evict-exit-test', fmt(t)[:60], 'the eviction loop of %s compares `%s` (== %s): it stops one entry too late / early' % (nid, fmt(t), v),
                              where=ctx.where(nid), expected='break when evicted >= weights_to_evict')
            # removals take the front node's key
            for e in p.events:
                if e[0] == 'call' and e[1] in (HASHMAP_REMOVE | DASHMAP_REMOVE):
                    seen_rm += 1
                    keyarg = e[2][1]
                    front = any(isinstance(x, tuple) and x and x[0] == 'call' and x[1] in R.front for x in subterms(keyarg))
                    probation = 'probation' in fmt(keyarg) or (kind == 'sync' and 'probation' in fmt(keyarg))
                    r.instance(function=nid, removes=fmt(keyarg)[:70], from_front=front)
                    if not front:
                        r.violate(nid, 'evict-not-front', fmt(keyarg)[:50], 'the eviction loop of %s removes a key that is not the front (LRU) node of the deque' % nid, where=ctx.where(nid, e[3]),
                                  expected='remove the key of deque.peek_front()')
        # (unsync) nothing else gates the eviction: a call that removes nothing is explained by "unbounded", "nothing (more) to evict",
        # "deque empty" or "batch exhausted" -- never by other state (a cached flag goes stale)
        if kind == 'unsync':
            for p in paths:
                if any(e[0] == 'call' and e[1] in HASHMAP_REMOVE for e in p.events):
                    continue
                why = None
                for t, v in p.conds:
                    if isinstance(t, tuple) and t[0] == 'discr' and has_field(t[1], ('max_capacity',)) and v == 0 and not any(isinstance(x, tuple) and x and x[0] == 'call' for x in subterms(t[1])):
                        why = 'unbounded'
                    if isinstance(t, tuple) and t[0] == 'discr' and v == 0 and isinstance(t[1], tuple) and t[1][0] == 'call' and (t[1][1] in R.front or str(t[1][1]).endswith('::next')):
                        why = why or ('deque empty' if t[1][1] in R.front else 'batch exhausted')
                for t, v in _ordered_literals(p):
                    if isinstance(t, tuple) and t[0] == 'cmp' and t[1] == 'le' and v is True and isinstance(strip_cast(t[2]), tuple) and strip_cast(t[2])[0] == 'bin' and \
                            strip_cast(t[2])[1] == 'saturating_sub' and has_field(t[2], ('weighted_size',)):
                        why = why or 'nothing to evict'
                r.instance(function=nid, no_removal_path_explained_by=why)
                if why is None:
                    r.violate(nid, 'evict-gated', 'no-removal', 'a path of %s removes nothing although the cache is bounded and neither `weights_to_evict <= evicted`, an empty deque nor the batch '
                              'limit was established (conditions: %s): the excess left by a growing update is not removed by the following operations' % (
                                  nid, [fmt(t)[:50] + '==' + str(v) for t, v in p.conds][:6]), where=ctx.where(nid), expected='evict whenever weighted_size > max_capacity')
        if (seen_exit < 1 or seen_rm < 1) and not r.violations:
            raise CheckFailure('CMP-evict: exit test / removal not recognised in %s (%d, %d)' % (nid, seen_exit, seen_rm))
    # weights_to_evict role
    for nid in (named(ctx, 'unsync.weights_to_evict'), named(ctx, 'sync.weights_to_evict')):
        if nid not in prog.bodies:
            if nid.startswith('unsync::') or ctx.has_sync:
                raise CheckFailure('CMP-evict: the weights_to_evict role (%s) was not found' % nid)
            continue
        for p in _run(ctx, nid, inline_depth=2):
            if p.diverged:
                continue
            ret = p.ret
            if ret == ('c', 0):
                continue
            ok = isinstance(ret, tuple) and ret[0] == 'bin' and ret[1] == 'saturating_sub' and _is_capacity(ctx, r, nid, ret[2], 'weighted_size') and _is_capacity(ctx, r, nid, ret[3])
            r.instance(function=nid, returns=fmt(ret), ok=ok)
            if not ok:
                r.violate(nid, 'weights-to-evict', fmt(ret)[:50], 'weights_to_evict is `%s`' % fmt(ret), where=ctx.where(nid), expected='weighted_size.saturating_sub(max_capacity)')
    # MUST-evict: every unsync operation first expires, then evicts the excess, then does its own map access (on every path; the prologue may
    # live in a helper).  Expiry first: the excess is computed from what is left once expired entries are gone.
    ev = named(ctx, 'unsync.evict_lru')
    exp = named(ctx, 'unsync.evict_expired')
    for m in ('insert', 'get', 'contains_key', 'invalidate'):
        nid = 'unsync::cache::Cache::' + m
        ctx.body(nid)
        paths = [p for p in _run(ctx, nid, inline_depth=3, loop_visits=2, inline_pred=lambda n_, bb, d: False if n_ in (ev, exp) else None) if not p.diverged]
        ok_all, order_ok = True, True
        for p in paths:
            idx_ev = [i for i, e in enumerate(p.events) if e[0] == 'call' and e[1] == ev]
            idx_exp = [i for i, e in enumerate(p.events) if e[0] == 'call' and e[1] == exp]
            idx_map = [i for i, e in enumerate(p.events) if e[0] == 'call' and str(e[1]).startswith('std::collections::HashMap::')]
            if not idx_ev or (idx_map and idx_map[0] < idx_ev[0]):
                ok_all = False
            if idx_ev and idx_exp and idx_exp[0] > idx_ev[0]:
                order_ok = False
        r.instance(function=nid, paths=len(paths), evicts_before_map_access=ok_all, expires_before_evicting=order_ok)
        if not ok_all:
            r.violate(nid, 'no-eviction', 'evict_lru_entries', '%s does not run the over-capacity eviction before its own work on every path' % nid, where=ctx.where(nid))
        if not order_ok:
            r.violate(nid, 'evict-before-expire', 'order', '%s runs the over-capacity eviction before the expiry step: the excess is computed while expired entries still count, so a live '
                      'least-recently-used entry is evicted although removing the expired ones would have restored the bound' % nid, where=ctx.where(nid),
                      expected='evict_expired_if_needed(); evict_lru_entries();')
    if R.maintenance:
        WTE, EVL = named(ctx, 'sync.weights_to_evict'), named(ctx, 'sync.evict_lru')
        EXP = named(ctx, 'sync.evict_expired')
        # (thin wrappers around the role count as the role)
        wte_like = {WTE} | {n_ for n_, b_ in prog.bodies.items() if b_.kind != 'closure' and b_.locals[0]['ty']['s'] == 'u64' and len(b_.blocks) <= 25 and
                            WTE in prog.reachable_from([n_]) and not any(e_[0] == 'write' for e_ in ctx.eff.transitive(n_))}
        for m in sorted(R.maintenance):
            # helpers of the run that lead to the eviction / expiry steps are part of the run
            leads = {x for x in prog.reachable_from([m]) if x not in (m, EVL, EXP, WTE) and prog.bodies[x].kind != 'closure' and x.startswith('sync::') and
                     (prog.reachable_from([x]) & {EVL, EXP}) and not prog.bodies[x].loops()}
            paths = [p for p in _run(ctx, m, inline_depth=1 + min(len(leads), 3), loop_visits=2, inline_pred=lambda n_, bb, d, _l=frozenset(leads): n_ in _l) if not p.diverged]
            for p in paths:
                # order of the two steps: expired entries are released first, the excess is what remains
                i_evl = [i for i, e in enumerate(p.events) if e[0] == 'call' and str(e[1]) == EVL]
                i_exp = [i for i, e in enumerate(p.events) if e[0] == 'call' and str(e[1]) == EXP]
                if i_evl and i_exp:
                    r.instance(function=m, expiry_step_before_eviction=i_exp[0] < i_evl[0])
                    if i_exp[0] > i_evl[0]:
                        r.violate(m, 'evict-before-expire', 'order', 'the maintenance run evicts for capacity BEFORE it releases the expired / invalidated entries: the excess is '
                                  'measured while they still count, so live LRU entries are evicted for room the expiry step frees anyway', where=ctx.where(m),
                                  expected='evict_expired(..) first, then weights_to_evict / evict_lru_entries(..)')
                guard = None
                for t, v in _ordered_literals(p):
                    if isinstance(t, tuple) and t[0] == 'cmp' and t[1] == 'le' and (
                            (t[3] == ('c', 0) and (has_call(t[2], tuple(wte_like)) or 'saturating_sub' in fmt(t[2]))) or
                            (t[2] == ('c', 0) and False)):
                        guard = (not v)     # le(wte, 0) == False  <=> wte > 0
                    if isinstance(t, tuple) and t[0] == 'cmp' and t[1] == 'le' and t[2] == ('c', 1) and (has_call(t[3], tuple(wte_like)) or 'saturating_sub' in fmt(t[3])):
                        guard = v
                called = any(e[0] == 'call' and str(e[1]) == EVL for e in p.events)
                # freshness: the excess handed to the eviction is computed after everything else that changes the run counters
                ev_i = [i for i, e in enumerate(p.events) if e[0] == 'call' and str(e[1]) == EVL]
                if ev_i:
                    ev = p.events[ev_i[0]]
                    excess = [a for a in ev[2] if has_call(a, tuple(wte_like)) or 'saturating_sub' in fmt(a)]
                    wte_i = [i for i, e in enumerate(p.events[:ev_i[0]]) if e[0] == 'call' and e[1] in wte_like]
                    mut_i = [i for i, e in enumerate(p.events[:ev_i[0]]) if e[0] == 'call' and e[1] in prog.bodies and e[1] not in wte_like and
                             any(_hc(ctx, l['ty']['s']) and l['ty']['s'].startswith('&mut') for l in prog.bodies[e[1]].locals[1:prog.bodies[e[1]].argc + 1])]
                    fresh = bool(wte_i) and (not mut_i or max(wte_i) > max(mut_i))
                    r.instance(function=m, excess_computed_after_last_counter_change=fresh)
                    if not fresh:
                        r.violate(m, 'stale-excess', 'weights_to_evict', 'the maintenance run computes weights_to_evict BEFORE a step that still changes the run counters (expiry / write application) and '
                                  'evicts for the stale excess: live LRU entries are evicted although the freed weight already covers it', where=ctx.where(m),
                                  expected='compute weights_to_evict after evict_expired, immediately before evict_lru_entries')
                if guard is None:
                    # a run that ends without having looked at the excess at all: the eviction is gated by something else (a flag, the number of
                    # writes applied in this run, ...).  The excess left by a growing update beyond one batch is then never removed by the
                    # following runs.  (Runs of a function that is not the one containing the eviction step are not concerned.)
                    if not called and (EVL in prog.reachable_from([m])) and p.ret is not None:
                        r.instance(function=m, weights_to_evict_examined=False, eviction_called=False)
                        r.violate(m, 'eviction-gated', 'evict_lru_entries', 'a path of the maintenance run ends without evicting and without having established weights_to_evict == 0 '
                                  '(conditions: %s): the over-capacity step is gated by other state' % [fmt(t)[:50] + '==' + str(v) for t, v in p.conds][-6:], where=ctx.where(m),
                                  expected='evict whenever weights_to_evict > 0, on every maintenance run')
                    continue
                r.instance(function=m, weights_to_evict_positive=guard, eviction_called=called)
                if guard and not called:
                    r.violate(m, 'no-eviction', 'evict_lru_entries', 'a path of the maintenance run has weights_to_evict > 0 but does not evict', where=ctx.where(m))
    return r


def rule_must_recency(ctx):
    r = RuleResult('MUST-recency', 'every use refreshes recency: a get hit (unsync: directly; sync: the applied ReadOp::Hit of an admitted entry) and every '
                   'update move the access-order node to the back (updates also the write-order node when ttl is on); admission pushes to the back')
    prog = ctx.prog
    R = get_roles(ctx)

    def moves(e, which):
        if e[0] != 'call' or e[1] not in prog.bodies:
            return False
        wk = wrapper_kind(ctx, e[1])
        return bool(wk) and wk[0] == 'move' and wk[1] == which
    # unsync get: hit paths
    from .rules_live import _lookup_analysis
    la = _lookup_analysis(ctx, 'unsync::cache::Cache::get', 'unsync', 'option')
    n = 0
    for row in la.rows:
        if row['hit'] is not True:
            continue
        p = row['path']
        n += 1
        # the call performs the move on EVERY one of its paths -- through the list primitive itself or a callee that always does -- except where
        # it has established that there is nothing to move (the entry has no node / the node is not in that deque).  A helper that merely CAN
        # reach the move is not enough: an early return inside it leaves the entry where it was.
        def _always_moves(fn_, depth_=0):
            key_ = ('always-moves-ao', fn_)
            if key_ not in ctx.cache:
                ctx.cache[key_] = False
                if depth_ < 4 and fn_ in prog.bodies and (prog.reachable_from([fn_]) & R.move):
                    try:
                        hp_ = [q for q in _run(ctx, fn_, inline_depth=0, loop_visits=2, inline_pred=lambda n_, bb_, d_: False) if not q.diverged]
                    except CheckFailure:
                        hp_ = []

                    def _excused(q):
                        return any((isinstance(c_, tuple) and any(isinstance(x, tuple) and x and ((x[0] == 'fld' and 'q_node' in str(x[2])) or
                                                                                               (x[0] == 'call' and (x[1] in R.member or 'q_node' in str(x[1])))) for x in subterms(c_)))
                                   for c_, v_ in q.conds)
                    ctx.cache[key_] = bool(hp_) and all(any(e_[0] == 'call' and (e_[1] in R.move or (e_[1] in prog.bodies and e_[1] != fn_ and _always_moves(e_[1], depth_ + 1)))
                                                            for e_ in q.events) or _excused(q) for q in hp_)
            return ctx.cache[key_]
        ok = any(e[0] == 'call' and (e[1] in R.move or (e[1] in prog.bodies and _always_moves(e[1]))) for e in p.events)
        r.instance(function='unsync::cache::Cache::get', hit=True, moves_to_back=ok)
        if not ok:
            r.violate('unsync::cache::Cache::get', 'hit-without-recency', 'move_to_back', 'a hit path of unsync get does not move the entry to the back of the access-order deque',
                      where=ctx.where('unsync::cache::Cache::get'))
    # unsync update
    nid = named(ctx, 'unsync.update_handler')
    for p in _run(ctx, nid, inline_depth=3):
        if p.diverged:
            continue
        n += 1
        ao = any(moves(e, 'ao') for e in p.events)
        ttl = None
        for t, v in p.conds:
            if isinstance(t, tuple) and t[0] == 'cmp' and t[1] == 'eq' and has_field(t, ('time_to_live',)):
                ttl = v
        wo = any(moves(e, 'wo') for e in p.events)
        ok = ao and (wo or ttl is False)
        r.instance(function=nid, moves_ao=ao, moves_wo=wo, ttl=ttl, ok=ok)
        if not ok:
            r.violate(nid, 'update-without-recency', 'ao=%s,wo=%s' % (ao, wo), 'a path of the unsync update handler does not refresh recency (access-order moved: %s, write-order moved: %s, ttl: %s)' % (ao, wo, ttl),
                      where=ctx.where(nid), path=[fmt(t)[:60] + '==' + str(v) for t, v in p.conds][:6], expected='move_to_back_ao (+ move_to_back_wo when ttl is set) on every update')
    # sync: read consumer + update arm
    if R.maintenance:
        cons = [x for x in prog.reachable_from(sorted(R.maintenance)) if x.startswith('sync::') and prog.bodies[x].kind != 'closure' and
                recv_types(ctx, x)]
        for c in sorted(cons):
            is_read = 'ReadOp' in recv_types(ctx, c)
            if not is_read:
                continue
            for p in _run(ctx, c, inline_depth=3, loop_visits=2):
                if p.diverged:
                    continue
                hit_admitted = [v for t, v in p.conds if isinstance(t, tuple) and t[0] == 'call' and str(t[1]).endswith('::load') and 'is_admitted' in fmt(t)]
                # Hit ops received on this path: Ok(op) with discriminant of variant Hit
                hit_idx = [v_['name'] for v_ in prog.adts['common::concurrent::ReadOp']['variants']].index('Hit')
                nhits = sum(1 for t, v in p.conds if isinstance(t, tuple) and t[0] == 'discr' and isinstance(t[1], tuple) and t[1][0] == 'payload' and t[1][2] == 'Ok'
                            and has_call(t[1], ('Receiver::try_recv',)) and v == hit_idx)
                if not hit_admitted and not nhits:
                    continue
                nmoves = sum(1 for e in p.events if moves(e, 'ao'))
                want = sum(1 for v in hit_admitted if v is True)
                n += 1
                r.instance(function=c, hits_received=nhits, admitted_tests=len(hit_admitted), hits_of_admitted_entries=want, moves_to_back=nmoves,
                           ok=nmoves == want and len(hit_admitted) == nhits)
                if len(hit_admitted) != nhits:
                    r.violate(c, 'hit-not-applied', 'is_admitted', 'the read-op consumer receives %d Hit op(s) on a path but tests/refreshes recency for %d (conditions: %s): a successful get '
                              'does not count as a use' % (nhits, len(hit_admitted), [fmt(t)[:40] + '==' + str(v) for t, v in p.conds][:6]), where=ctx.where(c),
                              expected='every Hit: if entry.is_admitted() { move_to_back_ao }')
                elif nmoves != want:
                    r.violate(c, 'hit-without-recency', 'move_to_back', 'the read-op consumer applies %d hit(s) of admitted entries but refreshes recency %d time(s) on a path (conditions: %s)' % (
                        want, nmoves, [fmt(t)[:40] + '==' + str(v) for t, v in p.conds][:6]), where=ctx.where(c),
                        expected='Hit of an admitted entry => move_to_back_ao, unconditionally')
        # every received read op is recorded: +1 sketch increment per Hit and per Miss, and one (guarded) advance of the
        # entry's last-accessed time per Hit -- independent of whether the entry is admitted yet
        EI = 'common::concurrent::entry_info::EntryInfo'
        ts_writers = {x for x in prog.bodies if any(('write', a_, f_) in ctx.eff.direct.get(x, ()) for a_, f_ in sync_ts_fields(ctx) if ts_name_kind(f_) == 'ao')}
        for c in sorted(cons):
            is_read = 'ReadOp' in recv_types(ctx, c)
            if not is_read:
                continue
            for p in _run(ctx, c, inline_depth=1, loop_visits=2, inline_pred=lambda n_, bb, d: False):
                if p.diverged:
                    continue
                ok_tags = [(t, v) for t, v in p.conds if isinstance(t, tuple) and t[0] == 'discr' and isinstance(t[1], tuple) and t[1][0] == 'payload' and t[1][2] == 'Ok' and has_call(t[1], ('Receiver::try_recv',))]
                nops = len(ok_tags)
                hit_idx = [v_['name'] for v_ in prog.adts['common::concurrent::ReadOp']['variants']].index('Hit')
                nhits = sum(1 for t, v in ok_tags if v == hit_idx)
                ninc = sum(1 for e in p.events if e[0] == 'call' and e[1] in R.sketch_increment)
                nadv = sum(1 for e in p.events if e[0] == 'call' and e[1] in prog.bodies and (prog.reachable_from([e[1]]) & ts_writers) and e[1] not in R.move and not ev_is(ctx, e, 'move'))
                if not nops:
                    continue
                n += 1
                r.instance(function=c, read_ops_received=nops, hits=nhits, sketch_increments=ninc, last_accessed_advances=nadv, ok=(ninc == nops and nadv == nhits))
                if ninc != nops:
                    r.violate(c, 'read-not-recorded', 'increment', 'the read-op consumer receives %d read op(s) on a path but increments the sketch %d time(s) (conditions: %s): a get is not recorded' % (
                        nops, ninc, [fmt(t)[:40] + '==' + str(v) for t, v in p.conds][:6]), where=ctx.where(c), expected='freq.increment(hash) for every Hit and every Miss')
                if nadv != nhits:
                    r.violate(c, 'hit-time-not-applied', 'last_accessed', 'the read-op consumer receives %d Hit(s) on a path but advances last_accessed %d time(s) (conditions: %s): a successful get does not '
                              'extend the idle deadline' % (nhits, nadv, [fmt(t)[:40] + '==' + str(v) for t, v in p.conds][:6]), where=ctx.where(c),
                              expected='advance_last_accessed(timestamp) for every Hit, admitted or not')
        up = named(ctx, 'sync.upsert')
        if up in prog.bodies:
            for p in _run(ctx, up, inline_depth=3, loop_visits=2, inline_pred=lambda n_, bb, d: False if ('handle_remove' in n_) else None):
                if p.diverged:
                    continue
                first_adm = None
                for t, v in p.conds:
                    if isinstance(t, tuple) and t[0] == 'call' and str(t[1]).endswith('::load') and 'is_admitted' in fmt(t) and first_adm is None:
                        first_adm = v
                if first_adm is not True:
                    continue
                n += 1
                ao = any(moves(e, 'ao') for e in p.events)
                wo = any(moves(e, 'wo') for e in p.events)
                r.instance(function=up, update_arm=True, moves_ao=ao, moves_wo=wo)
                if not (ao and wo):
                    r.violate(up, 'update-without-recency', 'ao=%s,wo=%s' % (ao, wo), 'the update arm of the write-op consumer does not refresh recency', where=ctx.where(up))
    # the cache-level move wrappers themselves: a wrapper with action = move performs the list move on EVERY path, except where it has established that
    # there is nothing to move (the entry has no node pointer for that queue / the node is not a member of the deque).  Any other condition inside the
    # wrapper (the entry's weight, a timestamp comparison with the current tail, a region it "need not" reorder) silently drops a use from the LRU order
    nwrap = 0
    # the list's move operation as the wrappers see it: the move role or a function of the list module built on it (`move_to_back_if_member`)
    _list_move = set(R.move) | {n_ for n_ in prog.bodies if n_.startswith('common::deque::') and prog.bodies[n_].kind != 'closure' and (prog.reachable_from([n_]) & R.move)}
    for fn_ in sorted(prog.bodies):
        wk_ = wrapper_kind(ctx, fn_)
        if not wk_ or wk_[0] != 'move' or prog.bodies[fn_].kind == 'closure' or not (prog.callees(fn_) & _list_move) or prog.bodies[fn_].loops():
            continue        # (only the wrappers that call the list's move operation themselves; their callers are judged by the clauses above)
        if not any(e_[0] == 'read' and e_[2] in ('access_order_q_node', 'write_order_q_node') for e_ in ctx.eff.transitive(fn_)):
            continue        # (an entry-level wrapper: it takes the node from the entry's own pointer)
        try:
            wp_ = [q for q in _run(ctx, fn_, inline_depth=0, loop_visits=2, inline_pred=lambda n_, bb_, d_: False) if not q.diverged]
        except CheckFailure:
            continue
        if not wp_:
            continue

        def _moves_here(q):
            return any(e_[0] == 'call' and (e_[1] in _list_move or (e_[1] in prog.bodies and e_[1] != fn_ and (wrapper_kind(ctx, e_[1]) or (None,))[0] == 'move')) for e_ in q.events)

        def _nothing_to_move(q):
            for c_, v_ in q.conds:
                if not isinstance(c_, tuple) or not c_:
                    continue
                # the node pointer is None
                if c_[0] == 'discr' and v_ == 0 and any(isinstance(x, tuple) and x and ((x[0] == 'fld' and 'q_node' in str(x[2])) or (x[0] == 'call' and 'q_node' in str(x[1])))
                                                         for x in subterms(c_)):
                    return True
                if c_[0] == 'cmp' and c_[1] in ('eq', 'ne') and isinstance(v_, bool) and any(isinstance(x, tuple) and x and x[0] == 'discr' and any(
                        isinstance(y, tuple) and y and ((y[0] == 'fld' and 'q_node' in str(y[2])) or (y[0] == 'call' and 'q_node' in str(y[1]))) for y in subterms(x)) for x in (c_[2], c_[3])):
                    k_ = c_[3] if isinstance(c_[2], tuple) and c_[2] and c_[2][0] == 'discr' else c_[2]
                    if k_ in (('c', 0), ('c', 1)) and ((v_ if c_[1] == 'eq' else not v_) == (k_ == ('c', 0))):
                        return True
                # the node is not a member of the deque (membership test of the list module answered false)
                if c_[0] == 'call' and c_[1] in R.member and v_ is False:
                    return True
            return False
        has_move = any(_moves_here(q) for q in wp_)
        if not has_move:
            continue        # a dispatcher whose callees are judged themselves
        for q in wp_:
            nwrap += 1
            ok_ = _moves_here(q) or _nothing_to_move(q)
            r.instance(function=fn_, clause='wrapper-always-moves', queue=wk_[1], moves=_moves_here(q), nothing_to_move=_nothing_to_move(q), ok=ok_)
            if not ok_:
                r.violate(fn_, 'wrapper-skips-move', wk_[1] or 'q', 'a path of the move wrapper %s returns without moving the node although the entry has a node that is a member of the deque '
                          '(conditions: %s): a use that does not refresh recency puts a recently used entry in front of less recently used ones' % (
                              fn_, [fmt(c_)[:50] + '==' + str(v_) for c_, v_ in q.conds][-4:]), where=ctx.where(fn_),
                          expected='if let Some(node) = entry.<queue>_q_node() { if deq.contains(node) { deq.move_to_back(node) } } -- nothing else decides')
    if nwrap < 4:
        raise CheckFailure('MUST-recency: only %d path(s) of move wrappers analysed (wrapper-always-moves would pass vacuously)' % nwrap)
    r.require_floor(6, 'use paths')
    return r
