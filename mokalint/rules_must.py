"""MUST rules: on every normal path of a region something happens.
MUST-invalidate, MUST-insert, AUTH-value, AUTH-va-writer, MUST-update-resets, FLOW-ts-origin, MUST-wo-node,
MUST-unlink-both (C01, C05, C06, C07, C11)."""
from .core import RuleResult, CheckFailure
from .roles import ev_is, wrapper_kind, write_scheduler, ts_name_kind, sync_ts_fields
from .roles import named
from .kernel import norm
from .roles import (get_roles, HASHMAP_REMOVE, HASHMAP_INSERT, DASHMAP_REMOVE, DASHMAP_INSERT, HASHMAP_MUT, DASHMAP_MUT)
from .symex import OCC_GET_MUT, VAC_INSERT, fmt, subterms, PathLimit
from .rules_live import is_clock, has_call, has_field


def _run(ctx, nid, **kw):
    ctx.body(nid)
    sx = ctx.symex(**kw)
    try:
        return [p for p in sx.run(nid) if not p.diverged]
    except PathLimit:
        raise CheckFailure('path limit exceeded in %s' % nid)


def _no_evict(n, b, d):
    return None


def rule_must_invalidate(ctx):
    r = RuleResult('MUST-invalidate', 'every invalidation form performs its removal / watermark write on every normal path before returning: '
                   'invalidate(k) removes k from the map (sync: before anything is queued); unsync invalidate_all clears the map and all '
                   'four deques; sync invalidate_all stores a clock reading of this call to valid_after; invalidate_entries_if removes '
                   'exactly the keys for which the user predicate returned true')
    prog = ctx.prog
    has_sync = any(n.startswith('sync::') for n in prog.bodies)
    # --- invalidate(key)
    for nid, rm in (('unsync::cache::Cache::invalidate', 'std::collections::HashMap::remove'),) + \
            ((('sync::cache::Cache::invalidate', 'dashmap::DashMap::remove'),) if has_sync else ()):
        for p in _run(ctx, nid, inline_depth=4, inline_pred=_no_evict):
            rem = [e for e in p.events if e[0] == 'call' and e[1] == rm and len(e[2]) > 1 and any(x == ('param', 2) for x in subterms(e[2][1]))]
            first_queue = [i for i, e in enumerate(p.events) if e[0] == 'call' and (str(e[1]).endswith('try_send') or e[1] in write_scheduler(ctx))]
            ok = bool(rem)
            before = True
            if ok and first_queue:
                before = p.events.index(rem[0]) < first_queue[0]
            r.instance(function=nid, removes_key=ok, before_queueing=before)
            if not ok:
                r.violate(nid, 'no-removal', rm.split('::')[-1], 'a normal path of %s returns without removing the key from the map' % nid,
                          where=ctx.where(nid), path=[fmt(c)[:60] + ' == ' + str(v) for c, v in p.conds][:6])
            elif not before:
                r.violate(nid, 'removal-after-queue', rm.split('::')[-1], 'the key is removed from the map only after the operation was queued',
                          where=ctx.where(nid))
    # --- unsync invalidate_all
    nid = 'unsync::cache::Cache::invalidate_all'
    for p in _run(ctx, nid, inline_depth=4):
        cleared = any(e[0] == 'call' and e[1] == 'std::collections::HashMap::clear' for e in p.events)
        dq = set()
        for e in p.events:
            if e[0] == 'write' and isinstance(e[1], tuple) and e[1][0] == 'fld' and e[1][2] in ('window', 'probation', 'protected', 'write_order'):
                dq.add(e[1][2])
            if e[0] == 'call' and str(e[1]).endswith('Deques::clear'):
                # opaque: check the callee writes all four deques
                w = {x[2] for x in ctx.eff.direct.get(e[1], ()) if x[0] == 'write' and x[1] == 'unsync::deques::Deques'}
                dq |= w
        ok = cleared and dq >= {'window', 'probation', 'protected', 'write_order'}
        r.instance(function=nid, map_cleared=cleared, deques_reset=sorted(dq), ok=ok)
        if not cleared:
            r.violate(nid, 'no-clear', 'HashMap::clear', 'invalidate_all does not clear the map on every path', where=ctx.where(nid))
        missing = {'window', 'probation', 'protected', 'write_order'} - dq
        if missing:
            r.violate(nid, 'deque-not-reset', ','.join(sorted(missing)), 'invalidate_all leaves deque(s) %s untouched: their nodes keep keys alive and '
                      'later expire re-inserted keys early' % sorted(missing), where=ctx.where(nid))
    # --- sync invalidate_all
    if has_sync:
        nid = 'sync::cache::Cache::invalidate_all'
        for p in _run(ctx, nid, inline_depth=6):
            w = [e for e in p.events if e[0] == 'write' and has_field(e[1], ('valid_after',))]
            # exactly the reading: `now + epsilon` would also hide entries written after the call returned at an unchanged clock reading
            def _exact(v_):
                return is_clock(v_) and not any(isinstance(x, tuple) and x and ((x[0] == 'bin' and x[1] not in ('BitAnd',)) or
                                                (x[0] == 'call' and str(x[1]).split('::')[-1] in ('checked_add', 'checked_sub', 'add', 'sub', 'saturating_add', 'saturating_sub')))
                                                for x in subterms(v_))
            ok = bool(w) and all(_exact(e[2]) for e in w)
            r.instance(function=nid, watermark_writes=len(w), value=fmt(w[-1][2])[:60] if w else None, ok=ok)
            if not w:
                r.violate(nid, 'no-watermark', 'valid_after', 'a normal path of invalidate_all returns without writing valid_after: entries inserted '
                          'before the call stay observable', where=ctx.where(nid), path=[fmt(c)[:70] + ' == ' + str(v) for c, v in p.conds][:6],
                          expected='valid_after = now on every path')
            elif not ok:
                r.violate(nid, 'watermark-not-clock', 'valid_after', 'valid_after is written with a value that is not exactly a clock reading of this call (%s)' % fmt(w[-1][2])[:60],
                          where=ctx.where(nid))
        # AUTH-va-writer
        for wfn in ctx.eff.who_has(('write', 'sync::base_cache::Inner', 'valid_after')):
            pubs = [pp for pp in prog.public_api() if wfn in prog.reachable_from([pp])]
            ok = set(pubs) <= {'sync::cache::Cache::invalidate_all'} or wfn.endswith('Inner::new')
            r.instance(writer_of='Inner.valid_after', function=wfn, reachable_from=pubs, ok=ok)
            if not ok:
                r.violate(wfn, 'watermark-writer', 'valid_after', 'Inner.valid_after is written by code reachable from %s' % pubs, where=ctx.where(wfn))
    # --- invalidate_entries_if
    nid = 'unsync::cache::Cache::invalidate_entries_if'
    b = ctx.body(nid)
    clos = sorted(prog.closures_of.get(nid, []))
    filt = None
    cands = []
    for bi, t in b.calls():
        _, ext, passed = prog.call_targets(b, t)
        if ext and ext.split('::')[-1] in ('filter', 'filter_map', 'retain', 'find', 'take_while', 'skip_while', 'partition') and passed:
            cands.append(passed[0])

    def _calls_pred(f_):
        # the selecting closure is the one that consults the user predicate (another filter_map may be the removal step)
        for p_ in _run(ctx, f_, inline_depth=2):
            ts_ = [p_.ret] + [c for c, v in p_.conds] + [a for e in p_.events if e[0] == 'call' for a in ((e,) + tuple(e[2] or ()))]
            for t_ in ts_:
                for x in subterms(t_):
                    if isinstance(x, tuple) and x and x[0] == 'call' and (x[1] == 'callback' or str(x[1]).endswith(('call_mut', 'call', 'call_once'))):
                        return True
        return False
    if cands:
        filt = next((f_ for f_ in cands if _calls_pred(f_)), cands[-1])
    if filt is None:
        r.violate(nid, 'no-filter', 'Iterator::filter', 'invalidate_entries_if does not filter the entries with the user predicate', where=ctx.where(nid))
    else:
        def is_pred_call(t_):
            return isinstance(t_, tuple) and t_ and t_[0] == 'call' and (t_[1] == 'callback' or str(t_[1]).endswith(('call_mut', 'call', 'call_once')))
        for p in _run(ctx, filt, inline_depth=2):
            if p.diverged:
                continue
            ret = p.ret
            # selected <=> the user predicate said true: the closure returns the predicate's result itself (filter), or Some(..) exactly on
            # the paths where the predicate's result is true (filter_map + then / then_some)
            direct = is_pred_call(ret)
            pred_lit = [(c, v) for c, v in p.conds if is_pred_call(c)]
            sel = None
            if isinstance(ret, tuple) and ret and ret[0] == 'aggr' and ret[2] in ('Some', 'None'):
                sel = (ret[2] == 'Some')
            elif isinstance(ret, tuple) and ret and ret[0] == 'c' and isinstance(ret[1], bool):
                sel = ret[1]
            via_lit = sel is not None and len(pred_lit) == 1 and pred_lit[0][1] is sel
            calls_pred = direct or via_lit
            pterm = ret if direct else (pred_lit[0][0] if pred_lit else None)
            uses_value = pterm is not None and any(isinstance(x, tuple) and x and x[0] == 'fld' and x[2] == 'value' for x in subterms(pterm))
            r.instance(function=filt, returns=fmt(ret)[:90], is_user_predicate_result=calls_pred, on_entry_value=uses_value)
            if not (calls_pred and uses_value):
                r.violate(filt, 'filter-not-predicate', 'closure', 'the filter closure of invalidate_entries_if does not select exactly the entries for which the user predicate on (key, value) '
                          'is true (returns %s under %s)' % (fmt(ret)[:60], [fmt(c)[:40] + '==' + str(v) for c, v in pred_lit]), where=ctx.where(filt))
    paths = _run(ctx, nid, inline_depth=4)
    rem = [p for p in paths if any(e[0] == 'call' and e[1] == 'std::collections::HashMap::remove' and
                                   any(isinstance(x, tuple) and x and (x[0] in ('iter_filter', 'iter_filter_map') or (x[0] == 'call' and str(x[1]).endswith(('Iterator::filter', 'Iterator::filter_map')))) for x in subterms(e[2][1])) for e in p.events)]
    r.instance(function=nid, paths=len(paths), paths_removing_filtered_keys=len(rem))
    if not rem:
        r.violate(nid, 'filtered-keys-not-removed', 'HashMap::remove', 'invalidate_entries_if does not remove the keys selected by the predicate', where=ctx.where(nid))
    # ... ALL of them: nothing between the map scan and the removals truncates the selection (a bounded batch leaves matching entries behind)
    TRUNC = ('take', 'skip', 'step_by', 'take_while', 'skip_while', 'nth', 'last', 'truncate', 'split_off', 'pop', 'chunks', 'first', 'min', 'max',
             'min_by_key', 'max_by_key', 'next_back', 'nth_back')
    for f_ in [nid] + sorted(prog.closures_of.get(nid, [])):
        fb = prog.bodies[f_]
        for bi, t in fb.calls():
            _, ext, _ = prog.call_targets(fb, t)
            if ext and ext.split('::')[-1] in TRUNC and ('iter' in ext.lower() or 'Vec' in ext or 'slice' in ext):
                r.violate(nid, 'selection-truncated', ext.split('::')[-1], 'invalidate_entries_if cuts the set of selected entries with `%s`: entries for which the predicate is true '
                          'stay in the cache after the call' % ext.split('::')[-1], where=ctx.where(f_, t.get('line')), expected='every entry matching the predicate is removed')
    r.instance(function=nid, truncating_adaptors_between_scan_and_removal=0 if not any(v_.construct == 'selection-truncated' for v_ in r.violations) else 1)
    r.require_floor(6 if has_sync else 4, 'invalidation paths')
    return r


def rule_must_insert(ctx):
    r = RuleResult('MUST-insert', 'every normal path of insert writes the new value into the map (unsync: HashMap::insert of an entry built from '
                   'the value parameter; sync: DashMap entry().and_modify(update).or_insert_with(insert), both closures storing the value '
                   'parameter) -- no path returns with an older value for the key still in place')
    prog = ctx.prog
    nid = 'unsync::cache::Cache::insert'
    keep = {named(ctx, k) for k in ('unsync.insert_handler', 'unsync.update_handler', 'unsync.evict_expired', 'unsync.evict_lru')}
    for p in _run(ctx, nid, inline_depth=3, inline_pred=lambda n, b, d: False if n in keep else None):
        ins = [e for e in p.events if e[0] == 'call' and e[1] == 'std::collections::HashMap::insert']
        ok = bool(ins) and any(any(x == ('param', 3) for x in subterms(e[2][2])) for e in ins if len(e[2]) > 2)
        r.instance(function=nid, map_insert=bool(ins), stores_value_param=ok)
        if not ok:
            r.violate(nid, 'no-map-write', 'HashMap::insert', 'a normal path of unsync insert returns without storing the new value in the map: '
                      'an older value of the key stays observable', where=ctx.where(nid), path=[fmt(c)[:70] + ' == ' + str(v) for c, v in p.conds][:6])
    if 'sync::cache::Cache::insert' in prog.bodies:
        nid = 'sync::cache::Cache::insert'
        bb = prog.bodies[nid]
        vparams = [i for i in range(1, bb.argc + 1) if bb.local_ty(i)['s'] == 'V'] or [3]

        def from_value(t):
            return any(isinstance(x, tuple) and x and x[0] == 'aggr' and 'ValueEntry' in str(x[1]) and
                       any(y == ('param', vp) for vp in vparams for y in subterms(x)) for x in subterms(t))
        for p in _run(ctx, nid, inline_depth=7, inline_pred=lambda n, b, d: False if n in write_scheduler(ctx) else None):
            if p.diverged:
                continue
            names = [str(e[1]) for e in p.events if e[0] == 'call']
            has_entry = 'dashmap::DashMap::entry' in names
            # the map slot of the key receives an entry built from this call's value: the occupied slot is overwritten (`*slot = ..`,
            # and_modify), or the vacant one is filled (VacantEntry::insert, or_insert_with), or DashMap::insert is used
            upd = [e for e in p.events if e[0] == 'write' and isinstance(e[1], tuple) and e[1][0] == 'call' and e[1][1] == OCC_GET_MUT]
            ins = [e for e in p.events if e[0] == 'call' and e[1] in (VAC_INSERT, 'dashmap::DashMap::insert')]
            stored = [e[2] for e in upd] + [e[2][-1] for e in ins if e[2]]
            ok = (has_entry or any(e[1] == 'dashmap::DashMap::insert' for e in ins)) and bool(stored) and all(from_value(x) for x in stored)
            r.instance(function=nid, entry=has_entry, occupied_slot_overwritten=bool(upd), vacant_slot_filled=bool(ins), stores_value_param=ok)
            # the replacement is one atomic step on the key's slot: insert never takes the key out of the map (a concurrent lookup /
            # iteration would miss a key that was never invalidated)
            rem = [e for e in p.events if e[0] == 'call' and e[1] in DASHMAP_REMOVE]
            if rem:
                r.violate(nid, 'insert-removes', str(rem[0][1]).split('::')[-1], 'a path of sync insert removes the key from the map (%s) before storing the new value: between the two '
                          'steps the key is absent although it was never invalidated' % rem[0][1], where=ctx.where(nid, rem[0][3]),
                          expected='replace the value in place under the entry / shard lock')
            if not stored:
                r.violate(nid, 'no-map-write', 'DashMap::entry', 'a normal path of sync insert does not store into the map slot of the key (neither the occupied slot is '
                          'overwritten nor the vacant one filled)', where=ctx.where(nid), path=[fmt(c)[:70] + ' == ' + str(v) for c, v in p.conds][:6])
            elif not ok:
                r.violate(nid, 'closure-not-storing', 'ValueEntry', 'a path of sync insert stores something else than a new ValueEntry built from the inserted value '
                          'into the map slot (%s)' % fmt(stored[0])[:80], where=ctx.where(nid), path=[fmt(c)[:70] + ' == ' + str(v) for c, v in p.conds][:6])
    r.require_floor(3, 'insert paths')
    return r


def rule_auth_value(ctx):
    r = RuleResult('AUTH-value', 'values enter the map only through insert: the map-insert primitives (HashMap::insert, DashMap::entry/insert) are '
                   'reachable from no public entry point other than insert; ValueEntry.value is written only by the constructors; '
                   'maintenance, lookups and invalidation never (re-)insert')
    prog, eff = ctx.prog, ctx.eff
    R = get_roles(ctx)
    sites = R.ext_sites(HASHMAP_INSERT | DASHMAP_MUT - DASHMAP_REMOVE - {'dashmap::DashMap::shrink_to_fit'})
    for nid, ext, line, bi in sites:
        root = prog.bodies[nid].root or nid
        pubs = sorted(pp for pp in prog.public_api() if root in prog.reachable_from([pp]) and not pp.endswith('::fmt'))
        allowed = {'unsync::cache::Cache::insert', 'sync::cache::Cache::insert'}
        ok = set(pubs) <= allowed
        # what is stored must be a fresh entry built from this call's value (never an older entry put back)
        if ext == 'std::collections::HashMap::insert':
            b2 = prog.bodies[nid]
            for bi2, t2 in b2.calls():
                if prog.call_targets(b2, t2)[1] == ext and len(t2['args']) > 2:
                    leaves = ctx.orig.of_operand(b2, t2['args'][2])
                    fresh = any(l[0] in ('via', 'call') and str(l[1]).endswith('ValueEntry::new') for l in leaves)
                    from_param = any(l[0] == 'param' and 'ValueEntry' in b2.local_ty(l[1])['s'] for l in leaves)
                    r.instance(site=nid, stores_fresh_entry=fresh, stores_parameter_entry=from_param)
                    if from_param or not fresh:
                        r.violate(nid, 'map-insert-of-old-entry', 'HashMap::insert', '%s stores an entry into the map that is not the one built from this insert\'s value (an older entry is put back): '
                                  'lookups return a value that is not the most recent insert' % nid, where=ctx.where(nid, t2.get('line')))
        r.instance(site=nid, primitive=ext, reachable_from=pubs, ok=ok)
        if not ok:
            r.violate(nid, 'map-insert-reachable', ext.split('::')[-1], 'the map-insert primitive %s in %s is reachable from %s' % (ext, nid, sorted(set(pubs) - allowed)),
                      where=ctx.where(nid, line), expected='reachable from insert only')
        if R.maintenance and root in prog.reachable_from(sorted(R.maintenance)):
            r.violate(nid, 'map-insert-in-maintenance', ext.split('::')[-1], 'maintenance can reach the map-insert primitive in %s: it could resurrect a value' % nid,
                      where=ctx.where(nid, line))
    for adt in ('unsync::ValueEntry', 'common::concurrent::ValueEntry'):
        if adt not in prog.adts:
            continue
        ws = eff.who_has(('write', adt, 'value'))
        for w in ws:
            ok = w.endswith('ValueEntry::new')
            r.instance(writer_of=adt + '.value', function=w, ok=ok)
            if not ok:
                r.violate(w, 'value-writer', adt.split('::')[-1] + '.value', 'ValueEntry.value is written outside its constructor (%s)' % w, where=ctx.where(w))
    r.require_floor(2 if ctx.has_sync else 1, 'map-insert sites')
    return r


def rule_update_resets(ctx):
    r = RuleResult('MUST-update-resets', 'the update arm of insert stores the clock reading of this insert to BOTH the last-modified and the last-accessed '
                   'store of the entry on every path (when the entry has the corresponding timestamp), so an update restarts ttl and tti')
    prog = ctx.prog
    # sync: the paths of the insert role on which the key's slot is occupied (and_modify closure / Occupied arm)
    root = named(ctx, 'sync.do_insert')
    n = 0
    if root in prog.bodies:
        nocc = 0
        for p in _run(ctx, root, inline_depth=6):
            if p.diverged:
                continue
            slotw = [e for e in p.events if e[0] == 'write' and isinstance(e[1], tuple) and e[1][0] == 'call' and e[1][1] == OCC_GET_MUT]
            occupied = any(isinstance(c, tuple) and c[0] == 'discr' and v == 0 and isinstance(c[1], tuple) and c[1][0] == 'call' and
                           str(c[1][1]).endswith('DashMap::entry') for c, v in p.conds)
            if not (slotw or occupied):
                continue
            nocc += 1
            n += 1
            for store in ('last_modified', 'last_accessed'):
                w = [e for e in p.events if e[0] == 'write' and any(isinstance(x, tuple) and x and x[0] == 'fld' and ts_name_kind(x[2]) == ('wo' if store == 'last_modified' else 'ao') for x in subterms(e[1])) and has_call(e[1], (OCC_GET_MUT,))]
                ok = bool(w) and all(is_clock(e[2]) for e in w)
                r.instance(function=root, store=store, written=bool(w), value=fmt(w[-1][2])[:60] if w else None, ok=ok)
                if not w:
                    r.violate(root, 'update-does-not-reset', store, 'the update path of sync insert does not write EntryInfo.%s: the %s interval is not restarted by an update, and an update made after invalidate_all keeps a timestamp below the watermark (it is hidden and then evicted)'
                              % (store, 'ttl' if store == 'last_modified' else 'tti'), where=ctx.where(root),
                              expected='set_last_modified(ts) and set_last_accessed(ts) on update')
                elif not ok:
                    r.violate(root, 'update-reset-origin', store, 'the update path writes EntryInfo.%s with something else than the clock reading of this insert' % store, where=ctx.where(root))
        if nocc == 0:
            raise CheckFailure('MUST-update-resets: no path of %s updates an occupied map slot (update arm not found)' % root)
        # ... and a first insert starts both intervals: the entry stored into the vacant slot carries the clock reading of this insert in
        # BOTH per-entry timestamp stores (the insert is an access; an unset store never expires)
        nvac = 0
        for p in _run(ctx, root, inline_depth=6):
            if p.diverged:
                continue
            for e in p.events:
                if not (e[0] == 'call' and e[1] in (VAC_INSERT, 'dashmap::DashMap::insert') and e[2]):
                    continue
                infos = [x for x in subterms(e[2][-1]) if isinstance(x, tuple) and x and x[0] == 'aggr' and norm(str(x[1])) in prog.adts and
                         any(ts_name_kind(f_['name']) for f_ in prog.adts[norm(str(x[1]))]['variants'][0]['fields'])]
                for info in infos[:1]:
                    fields = prog.adts[norm(str(info[1]))]['variants'][0]['fields']
                    for f_, fv in zip(fields, info[3]):
                        kind_ = ts_name_kind(f_['name'])
                        if not kind_:
                            continue
                        nvac += 1
                        parts = set(x for x in subterms(fv) if isinstance(x, tuple))
                        stamped = is_clock(fv) or any(w_[0] == 'write' and w_[1] in parts and is_clock(w_[2]) for w_ in p.events)
                        r.instance(function=root, path='first insert (vacant slot)', store=f_['name'], initialised_with_clock_reading=stamped)
                        if not stamped:
                            r.violate(root, 'insert-does-not-stamp', f_['name'], 'the entry a first insert stores into the map has no clock reading in EntryInfo.%s: its %s interval never '
                                      'starts, so the entry does not expire by it until something else writes the store' % (f_['name'], 'tti' if kind_ == 'ao' else 'ttl'),
                                      where=ctx.where(root, e[3]), expected='EntryInfo::new(.., timestamp, ..) initialises last_accessed and last_modified with the timestamp')
        if nvac < 2:
            raise CheckFailure('MUST-update-resets: the entry stored by a first insert (vacant slot) and its timestamp stores were not found in %s' % root)
    # unsync: update role = handle_update
    nid = named(ctx, 'unsync.update_handler')
    for p in _run(ctx, nid, inline_depth=5):
        ts_some = None
        for c, v in p.conds:
            if c == ('discr', ('param', 3)):
                ts_some = v
        if ts_some != 1:
            continue
        n += 1
        for store, node in (('last_accessed', 'access_order_q_node'), ('last_modified', 'write_order_q_node')):
            # does the entry have that node on this path?
            has_node = None
            for c, v in p.conds:
                if isinstance(c, tuple) and c[0] == 'discr' and has_field(c[1], (node,)):
                    has_node = v
            w = [e for e in p.events if e[0] == 'write' and has_field(e[1], ('timestamp',)) and has_field(e[1], (node,))]
            ok = bool(w) and all(any(x == ('payload', ('param', 3), 'Some', 0) for x in subterms(e[2])) for e in w)
            r.instance(function=nid, store=store, entry_has_node=has_node, written=bool(w), ok=ok or has_node == 0)
            if has_node == 1 and not w:
                r.violate(nid, 'update-does-not-reset', store, 'the update path of unsync insert does not write the %s timestamp of the entry' % store,
                          where=ctx.where(nid), expected='set_last_accessed(ts); set_last_modified(ts)')
            elif w and not ok:
                r.violate(nid, 'update-reset-origin', store, 'the update path writes the %s timestamp with something else than the insert\'s clock reading' % store, where=ctx.where(nid))
    r.require_floor(4, 'update paths x stores')
    return r


def rule_scan_stops_with_cause(ctx):
    r = RuleResult('MUST-scan-complete', 'an expiry scan stops at a front node it does not remove only after establishing, on THAT node\'s own timestamp of the scanned '
                   'queue, that the node is alive: deadline not reached (or the duration is not configured) and, in the concurrent cache, not older than the '
                   'invalidate_all watermark (or no watermark) -- otherwise expired / invalidated entries stay in the map, counted and holding their key and value')
    from .rules_live import literals_of, classify_literal, tag_none_facts, ts_kind
    prog = ctx.prog
    R = get_roles(ctx)
    roles = [('unsync.scan_wo', 'wo', 'unsync'), ('unsync.scan_ao', 'ao', 'unsync')]
    if ctx.has_sync:
        roles += [('sync.scan_wo', 'wo', 'sync'), ('sync.scan_ao', 'ao', 'sync')]
    n = 0
    for key, kind, flavour in roles:
        nid = named(ctx, key)
        if nid not in prog.bodies:
            raise CheckFailure('MUST-scan-complete: scan role %s not found' % key)
        rm = (HASHMAP_REMOVE | DASHMAP_REMOVE)
        for p in _run(ctx, nid, inline_depth=4, loop_visits=2, inline_pred=lambda n_, b_, d_: False if ('handle_remove' in n_ or 'try_skip' in n_) else None):
            if any(e[0] == 'call' and e[1] in rm for e in p.events):
                continue
            front = [v for c, v in p.conds if isinstance(c, tuple) and c[0] == 'discr' and isinstance(c[1], tuple) and c[1] and c[1][0] == 'call' and c[1][1] in R.front]
            if not front or front[-1] != 1:
                continue
            lits = literals_of(p.conds)
            facts = []
            for t, v in lits:
                f = classify_literal(t, v)
                if f:
                    # a timestamp read straight from the scanned deque's front node (the accessor was stepped into: `node.element.timestamp`)
                    # is that queue's timestamp
                    if not f['ts'] and any(isinstance(x, tuple) and x and x[0] == 'call' and x[1] in R.front for x in subterms(t)):
                        f = dict(f); f['ts'] = {kind}
                    facts.append(f)
            nones = tag_none_facts(lits)
            cfg = 'time_to_live' if kind == 'wo' else 'time_to_idle'
            def _front_ts(x):       # the front node's own `timestamp` field (accessor stepped into)
                return any(isinstance(y, tuple) and y and y[0] == 'fld' and y[2] == 'timestamp' for y in subterms(x)) and \
                    any(isinstance(y, tuple) and y and y[0] == 'call' and y[1] in R.front for y in subterms(x))
            no_ts = any((ts_kind(x) == {kind} or _front_ts(x)) and not has_call(x, ('checked_add',)) for x in nones)
            bsc = prog.bodies[nid]

            def _dur_param(x):      # the duration handed in as a parameter (`time_to_idle: &Option<Duration>`)
                while isinstance(x, tuple) and x and x[0] in ('payload',):
                    x = x[1]
                return isinstance(x, tuple) and x and x[0] == 'param' and x[1] <= bsc.argc and \
                    bsc.local_ty(x[1])['s'].replace('&', '').replace("'a ", '').replace('mut ', '').endswith('Option<std::time::Duration>')
            dl = any(f['what'] == 'deadline' and f['state'] == 'not-expired' and kind in f['ts'] for f in facts) or \
                any((has_field(x, (cfg,)) or _dur_param(x)) and not has_call(x, ('checked_add',)) for x in nones) or no_ts
            wm = flavour == 'unsync' or any(f['what'] == 'watermark' and f['state'] == 'valid' and kind in f['ts'] for f in facts) or \
                any(has_field(x, ('valid_after',)) for x in nones) or no_ts
            n += 1
            r.instance(scan=nid, queue=kind, front_node_kept=True, deadline_not_reached_established=dl, not_invalidated_established=wm, ok=dl and wm)
            if not (dl and wm):
                what = 'its deadline is not reached' if not dl else 'it is not older than the invalidate_all watermark'
                r.violate(nid, 'scan-stops-without-cause', 'deadline' if not dl else 'watermark', '%s stops at a front node without having established on the node\'s own %s timestamp that %s '
                          '(facts on this path: %s): expired / invalidated entries behind the test are never released' % (
                              nid, 'last-modified' if kind == 'wo' else 'last-accessed', what, [(f['what'], f['state'], sorted(f['ts'])) for f in facts][:4]),
                          where=ctx.where(nid), path=[fmt(c)[:60] + ' == ' + str(v) for c, v in p.conds][:8],
                          expected='break only when !(ts + d <= now) and !(ts < valid_after) for the front node')
    r.require_floor(4 if not ctx.has_sync else 10, 'scan paths that keep the front node')
    return r


def _update_resets_for(kind, label):
    """The same analysis, reporting only the verdicts about one of the two timestamp stores (wo = last modified / ttl, ao = last accessed / tti)."""
    def rule(ctx):
        full = rule_update_resets(ctx)
        r = RuleResult('MUST-update-resets(%s)' % label, full.statement + ' -- verdicts about the %s store' % ('last-modified' if kind == 'wo' else 'last-accessed'))
        r.instances = list(full.instances)
        r.notes = list(full.notes)
        r.floor = full.floor
        for v in full.violations:
            d = str(v.detail)
            k_ = ts_name_kind(d) or ('wo' if 'modified' in d else ('ao' if 'accessed' in d else None))
            if k_ in (kind, None):
                v2 = r.violate(v.function, v.construct, v.detail, v.message, where=v.where, path=v.path, expected=v.expected)
        return r
    rule.__name__ = 'rule_update_resets_%s' % label
    return rule


rule_update_resets_ttl = _update_resets_for('wo', 'ttl')
rule_update_resets_tti = _update_resets_for('ao', 'tti')


def rule_wo_node(ctx):
    r = RuleResult('MUST-wo-node', 'every admission creates the write-order node exactly when time_to_live is configured (the node carries '
                   'the last-modified time; without it the entry never expires by ttl and an update of it panics)')
    prog = ctx.prog
    fns = [(named(ctx, 'unsync.insert_handler'), {})]
    if ctx.has_sync:
        fns.append((named(ctx, 'sync.upsert'), {}))
    # ... and any other function of the caches that links a new access-order node without being part of those handlers (a fast path added
    # beside `handle_insert` has the same obligation)
    pushers = {n_ for n_ in prog.bodies if (wrapper_kind(ctx, n_) or (None, None)) == ('push', 'ao')}
    covered = set()
    for nid0, _ in fns:
        covered |= prog.reachable_from([nid0]) | {nid0}
    for n_ in sorted(prog.bodies):
        b_ = prog.bodies[n_]
        if b_.kind == 'closure' or n_ in covered or n_ in pushers or n_.startswith(('common::deque::', '<common::deque::')) or wrapper_kind(ctx, n_):
            continue
        if prog.callees(n_) & pushers:
            fns.append((n_, {}))
    n = 0
    for nid, _ in fns:
        for p in _run(ctx, nid, inline_depth=4, loop_visits=2, inline_pred=lambda n_, b, d: False if 'handle_remove' in n_ else None):
            ao = [e for e in p.events if ev_is(ctx, e, 'push', 'ao')]
            if not ao:
                continue
            n += 1
            wo = [e for e in p.events if ev_is(ctx, e, 'push', 'wo')]
            ttl = None
            other = []
            for c, v in p.conds:
                if isinstance(c, tuple) and c[0] == 'cmp' and c[1] == 'eq':
                    d = [y for y in (c[2], c[3]) if isinstance(y, tuple) and y[0] == 'discr']
                    for y in d:
                        if has_field(y[1], ('time_to_live',)):
                            ttl = v
                        elif has_field(y[1], ('time_to_idle',)):
                            other.append('time_to_idle')
                if isinstance(c, tuple) and c[0] == 'discr' and has_field(c[1], ('time_to_live',)):
                    ttl = (v == 1)
            ok = (ttl is True and len(wo) == 1) or (ttl is False and not wo)
            r.instance(function=nid, ttl_configured=ttl, write_order_node_created=len(wo), ok=ok)
            if not ok:
                r.violate(nid, 'wo-node-condition', 'ttl=%s,wo=%d' % (ttl, len(wo)),
                          'an admission path creates %d write-order node(s) with time_to_live %s%s' % (
                              len(wo), {True: 'configured', False: 'not configured', None: 'not tested'}[ttl],
                              ' (tested: %s)' % other if other else ''), where=ctx.where(nid, ao[0][3]),
                          expected='push_back_wo iff time_to_live.is_some()')
    r.require_floor(4, 'admission paths')
    return r


def rule_unlink_both(ctx):
    r = RuleResult('MUST-unlink-both', 'every path that removes an entry from the unsync map unlinks AND frees both its access-order and its write-order '
                   'node (so no node -- which owns a key clone -- outlives its entry); the sync remove role does the same for admitted entries')
    prog, eff = ctx.prog, ctx.eff
    R = get_roles(ctx)

    def unlink_kind(fn):
        """'ao' / 'wo' if fn takes the respective node pointer out of the entry and reaches the freeing unlink."""
        d = set()
        for x in prog.reachable_from([fn]):
            d |= eff.direct.get(x, set())
        frees = bool(prog.reachable_from([fn]) & R.free)
        kinds = set()
        if frees and any(e[0] == 'write' and e[2] == 'access_order_q_node' for e in d):
            kinds.add('ao')
        if frees and any(e[0] == 'write' and e[2] == 'write_order_q_node' for e in d):
            kinds.add('wo')
        return kinds
    n = 0
    fns = sorted(nid for nid in prog.bodies if nid.startswith('unsync::cache::Cache::') and (R.ext_calls[nid] & HASHMAP_REMOVE))
    for nid in fns:
        b = prog.bodies[nid]
        root = b.root or nid
        for p in _run(ctx, nid if b.kind != 'closure' else nid, inline_depth=3, loop_visits=2):
            for e in p.events:
                if e[0] != 'call' or e[1] not in HASHMAP_REMOVE or e[1].endswith('clear'):
                    continue
                res = e[6] if len(e) > 6 else ('call', e[1], e[2])
                tag = None
                for c, v in p.conds:
                    if c == ('discr', res):
                        tag = v
                E = ('payload', res, 'Some', 0)
                used = any(ev[0] == 'call' and any(any(y == E for y in subterms(a)) for a in ev[2]) for ev in p.events if ev is not e)
                if tag == 0 or (tag is None and not used):
                    continue
                n += 1
                kinds = set()
                for ev in p.events:
                    if ev[0] == 'call' and ev[1] in prog.bodies and any(any(y == E for y in subterms(a)) for a in ev[2]):
                        kinds |= unlink_kind(ev[1])
                ok = kinds >= {'ao', 'wo'}
                r.instance(function=nid, removed=fmt(E)[:60], unlinked=sorted(kinds), ok=ok)
                if not ok:
                    miss = sorted({'ao', 'wo'} - kinds)
                    r.violate(nid, 'node-not-unlinked', ','.join(miss), 'a path removes an entry from the map but does not unlink+free its %s node(s): the stale node keeps '
                              'the key alive and later evicts / expires a re-inserted entry of the same key' % miss, where=ctx.where(nid, e[3]),
                              expected='unlink_ao(entry) and unlink_wo(entry) for every removed entry')
    # an entry REPLACED in the map (HashMap::insert returned the old one) owns the key's two nodes: on every path they are handed on to the new
    # entry or unlinked + freed -- dropping the old entry just forgets the raw pointers (the nodes, and the key clones they own, stay queued)
    nid = 'unsync::cache::Cache::insert'
    upd = named(ctx, 'unsync.update_handler')

    # fields that hold the node pointers: the two *_q_node fields themselves, or a field whose (struct) type contains both
    both_holder = set()
    for an_, a_ in prog.adts.items():
        for v_ in a_['variants']:
            for f_ in v_['fields']:
                inner = prog.adts.get(norm(str((f_.get('ty') or {}).get('adt') or '')))
                if inner and {'access_order_q_node', 'write_order_q_node'} <= {g_['name'] for vv in inner['variants'] for g_ in vv['fields']}:
                    both_holder.add(f_['name'])

    def hands_on(fn):
        d = set()
        for x in prog.reachable_from([fn]):
            d |= eff.direct.get(x, set())
        whole = any(e[0] == 'write' and e[2] in both_holder for e in d)
        return whole or (any(e[0] == 'write' and e[2] == 'access_order_q_node' for e in d) and any(e[0] == 'write' and e[2] == 'write_order_q_node' for e in d))
    nrep = 0
    _ho = {}

    def _pol(n_, b_, d_):
        if n_ == upd:
            return True
        if n_ not in _ho:
            # (a function that itself leads to the map write is the body of insert split off, not a hand-over helper)
            stores_ = any('std::collections::HashMap::insert' in get_roles(ctx).ext_calls.get(x_, ()) for x_ in (prog.reachable_from([n_]) | {n_}))
            _ho[n_] = b_.kind != 'closure' and not stores_ and (hands_on(n_) or bool(unlink_kind(n_)))
        return False if _ho[n_] else None      # the node hand-over / unlink helpers are the events looked for
    for p in _run(ctx, nid, inline_depth=3, loop_visits=2, inline_pred=_pol):
        for e in p.events:
            if not (e[0] == 'call' and e[1] == 'std::collections::HashMap::insert'):
                continue
            res = e[6] if len(e) > 6 else ('call', e[1], e[2])
            if not any(c == ('discr', res) and v == 1 for c, v in p.conds):
                continue
            OLD = ('payload', res, 'Some', 0)
            nrep += 1
            taken = [ev[1] for ev in p.events if ev[0] == 'call' and ev[1] in prog.bodies and ev[1] != upd and any(any(y == OLD for y in subterms(a)) for a in ev[2]) and
                     (hands_on(ev[1]) or unlink_kind(ev[1]))]
            kinds = set()
            for t_ in taken:
                kinds |= ({'ao', 'wo'} if hands_on(t_) else unlink_kind(t_))
            ok = kinds >= {'ao', 'wo'}
            r.instance(function=nid, replaced_entry=fmt(OLD)[:50], nodes_taken_over_by=[t_.split('::')[-1] for t_ in taken], ok=ok)
            if not ok:
                r.violate(nid, 'replaced-entry-nodes-dropped', ','.join(sorted({'ao', 'wo'} - kinds)), 'a path of insert replaces an entry in the map and drops the old entry without handing its '
                          'deque nodes to the new entry or unlinking them: the orphan nodes keep the key alive and later evict / expire a re-inserted entry of the same key',
                          where=ctx.where(nid, e[3]), path=[fmt(c)[:60] + ' == ' + str(v) for c, v in p.conds][:6], expected='entry.replace_deq_nodes_with(old_entry) on every update path')
    if nrep < 1 and not r.violations:
        raise CheckFailure('MUST-unlink-both: no path of %s replaces an existing entry (update arm not found)' % nid)
    if n < 6 and not r.violations:
        raise CheckFailure('MUST-unlink-both: only %d entry-bearing removal events analysed (expected >= 6)' % n)
    r.floor = (6, 'entry-bearing removal events')
    return r


def rule_impl_accessors(ctx):
    r = RuleResult('IMPL-accessors', 'every implementation of the timestamp accessors reads / writes the store its name says: last_modified / set_last_modified use the '
                   'write-order store (EntryInfo.last_modified, the write-order node), last_accessed / set_last_accessed the access-order store; the lookups '
                   'call these accessors through a trait, so GUARD-live sees only their names')
    prog, eff = ctx.prog, ctx.eff
    WO = {'last_modified', 'write_order_q_node'} | {f_ for _a, f_ in sync_ts_fields(ctx) if ts_name_kind(f_) == 'wo'}
    AO = {'last_accessed', 'access_order_q_node'} | {f_ for _a, f_ in sync_ts_fields(ctx) if ts_name_kind(f_) == 'ao'}
    n = 0
    for item in ('last_accessed', 'set_last_accessed', 'last_modified', 'set_last_modified'):
        # every function of the crate with the accessor's name: impls of the accessor trait(s) -- one trait, or one per store -- and inherent methods
        impls_ = sorted(n_ for n_, b_ in prog.bodies.items() if b_.kind != 'closure' and n_.split('::')[-1] == item and
                        not n_.startswith(('common::concurrent::atomic_time::', '<common::concurrent::atomic_time::')))
        for tr in ('accessor',):
            for impl in impls_:
                reach = prog.reachable_from([impl])
                fields = set()
                for x in reach:
                    for e in eff.direct.get(x, ()):
                        if e[0] in ('read', 'write') and e[2] in (WO | AO):
                            fields.add(e[2])
                want, other = (WO, AO) if 'modified' in item else (AO, WO)
                # impls for the *other* queue's node type are dead (unreachable!/None): they touch neither store
                n += 1
                bad = fields & other
                r.instance(impl=impl, touches=sorted(fields), ok=not bad)
                if bad:
                    r.violate(impl, 'accessor-crossed', ','.join(sorted(bad)), '%s touches %s: the %s time is taken from / stored to the wrong store, so ttl is measured from the last read (or tti from the last write)'
                              % (impl, sorted(bad), 'last-modified' if 'modified' in item else 'last-accessed'), where=ctx.where(impl))
    r.require_floor(8 if ctx.has_sync else 4, 'accessor implementations')
    return r


def rule_must_expire(ctx):
    r = RuleResult('MUST-expire', 'expiry scans run whenever their configuration says so and on nothing else: the sync maintenance run calls the expiry step iff has_expiry() || '
                   'has_valid_after(); inside it the write-order scan runs iff ttl is set and the access-order scans iff tti is set or a watermark exists; the '
                   'unsync expiry step runs the write-order scan iff ttl and the access-order scans iff tti -- independently of each other and of any counter')
    prog = ctx.prog
    R = get_roles(ctx)
    n = 0

    def conf_lits(p):
        d = {}
        for c, v in p.conds:
            f = fmt(c)
            if isinstance(c, tuple) and c[0] == 'call' and str(c[1]).endswith(('has_expiry', 'has_valid_after', 'is_write_order_queue_enabled')):
                d[str(c[1]).split('::')[-1]] = v
            if isinstance(c, tuple) and c[0] == 'cmp' and c[1] == 'eq' and any(isinstance(x, tuple) and x and x[0] == 'discr' for x in (c[2], c[3])):
                for nm in ('time_to_live', 'time_to_idle'):
                    if has_field(c, (nm,)):
                        d[nm] = v
                if has_field(c, ('valid_after',)):
                    d['has_valid_after'] = v
            if isinstance(c, tuple) and c[0] == 'discr' and has_field(c[1], ('valid_after',)) and not has_call(c[1], ('last_', 'checked_add')):
                d['has_valid_after'] = (v == 1)
        return d
    # sync: maintenance run
    for m in sorted(R.maintenance):
        # helpers of the run that lead to the expiry step are part of the run
        step = named(ctx, 'sync.evict_expired')
        leads = {x for x in prog.reachable_from([m]) if x not in (m, step) and prog.bodies[x].kind != 'closure' and step in prog.reachable_from([x])
                 and x.startswith('sync::')}
        def _pol(n_, b_, d_, _l=frozenset(leads)):
            if n_ in _l:
                return True
            # small side-effect-free predicates ("is there anything that can expire?") are part of the decision
            # (and so are the plain getters they read the configuration through)
            return bool(b_.kind != 'closure' and not b_.loops() and n_ != step and not any(e_[0] == 'write' for e_ in ctx.eff.transitive(n_)) and
                        ((len(b_.blocks) <= 25 and b_.locals[0]['ty']['s'] == 'bool') or (len(b_.blocks) <= 4 and b_.argc == 1)))
        for p in _run(ctx, m, inline_depth=3 + min(len(leads), 3), loop_visits=2, inline_pred=_pol):
            d = conf_lits(p)
            if 'has_expiry' not in d:
                # the predicate spelled out: some duration is configured
                if d.get('time_to_live') is True or d.get('time_to_idle') is True:
                    d['has_expiry'] = True
                elif d.get('time_to_live') is False and d.get('time_to_idle') is False:
                    d['has_expiry'] = False
            called = any(e[0] == 'call' and str(e[1]) == step for e in p.events)
            # a path may skip the expiry step only after establishing that neither expiry nor a watermark exists
            established_off = d.get('has_expiry') is False and d.get('has_valid_after') is False
            should = d.get('has_expiry') is True or d.get('has_valid_after') is True or not established_off
            n += 1
            r.instance(function=m, has_expiry=d.get('has_expiry'), has_valid_after=d.get('has_valid_after'), expiry_step_called=called)
            if should != called:
                r.violate(m, 'expiry-step-condition', 'called=%s' % called, 'a path of the maintenance run with has_expiry=%s / has_valid_after=%s %s the expiry step (other conditions: %s): expired or '
                          'invalidated entries are not released in that run' % (d.get('has_expiry'), d.get('has_valid_after'), 'calls' if called else 'does not call',
                                                                               [fmt(c)[:50] + '==' + str(v) for c, v in p.conds if 'has_' not in fmt(c)][:4]), where=ctx.where(m),
                          expected='if self.has_expiry() || self.has_valid_after() { self.evict_expired(..) }')
    # the expiry steps themselves
    for nid, kind in ((named(ctx, 'sync.evict_expired'), 'sync'), (named(ctx, 'unsync.evict_expired'), 'unsync')):
        if nid not in prog.bodies:
            continue
        scans = {named(ctx, kind + '.scan_wo'), named(ctx, kind + '.scan_ao')}
        for p in _run(ctx, nid, inline_depth=4, loop_visits=2, inline_pred=lambda n_, b, d, _s=scans: False if n_ in _s else None):
            d = conf_lits(p)
            wo = sum(1 for e in p.events if e[0] == 'call' and str(e[1]) == named(ctx, kind + '.scan_wo'))
            ao = sum(1 for e in p.events if e[0] == 'call' and str(e[1]) == named(ctx, kind + '.scan_ao'))
            ttl = d.get('time_to_live', d.get('is_write_order_queue_enabled'))
            tti = d.get('time_to_idle')
            va = d.get('has_valid_after')
            n += 1
            want_wo = 1 if ttl else 0
            want_ao = 3 if (tti or (kind == 'sync' and va)) else 0
            ok = (ttl is None or wo == want_wo) and ((tti is None and va is None) or ao == want_ao)
            # a path may skip a scan only after establishing that its timer is not configured
            if wo == 0 and ttl is not False:
                ok = False
            if ao == 0 and not (tti is False and (kind == 'unsync' or va is False)):
                ok = False
            r.instance(function=nid, ttl=ttl, tti=tti, watermark=va, write_order_scans=wo, access_order_scans=ao, ok=ok)
            if not ok:
                r.violate(nid, 'expiry-scan-condition', 'wo=%d,ao=%d' % (wo, ao), 'a path of %s with ttl=%s tti=%s watermark=%s runs %d write-order and %d access-order scans (expected %d and %d): '
                          'entries expired by one timer are not purged when the other is also configured' % (nid, ttl, tti, va, wo, ao, want_wo, want_ao), where=ctx.where(nid))
    r.require_floor(6 if ctx.has_sync else 2, 'expiry paths')
    return r
