"""FLOW rules (C10, C03, C04): every path that adds / removes / replaces a map entry adjusts both
counters by that entry's weight with the right sign and origin.

Works on the per-path traces of the abstract interpreter: the final value written to a counter
is a term over the counter's old value; it is decomposed into a signed sum ("linear form")."""
from collections import defaultdict
from .core import RuleResult, CheckFailure
from .roles import ev_is, wrapper_kind, write_scheduler
from .roles import CHAN_RECV, recv_types
from .roles import named
from .kernel import norm
from .roles import get_roles, HASHMAP_REMOVE, DASHMAP_REMOVE
from .symex import fmt, subterms, PathLimit


def has_field(t, names):
    return any(isinstance(x, tuple) and x and x[0] == "fld" and x[2] in names for x in subterms(t))

ADD_OPS = ('Add', 'saturating_add', 'wrapping_add', 'AddUnchecked')
SUB_OPS = ('Sub', 'saturating_sub', 'wrapping_sub', 'SubUnchecked')


def lin(t, sign=1):
    """Signed atoms of an additive term."""
    if isinstance(t, tuple) and t:
        if t[0] == 'bin' and t[1] in ADD_OPS:
            return lin(t[2], sign) + lin(t[3], sign)
        if t[0] == 'bin' and t[1] in SUB_OPS:
            return lin(t[2], sign) + lin(t[3], -sign)
        if t[0] == 'cast':
            # only value-preserving (unsigned, widening) casts are transparent: through a signed or narrower type a difference does not
            # stay the difference (u32 delta `as i32` flips its sign from 2^31 on)
            if len(t) > 2 and str(t[2]) in ('i8', 'i16', 'i32', 'i64', 'i128', 'isize', 'u8', 'u16'):
                return [(sign, t)]
            return lin(t[1], sign)
        if t[0] == 'c' and t[1] == 0:
            return []
    return [(sign, t)]


def strip_cast(t):
    while isinstance(t, tuple) and t and t[0] == 'cast':
        t = t[1]
    return t


def final_writes(p, field):
    """Last value written on this path to a location whose innermost field is `field`."""
    val = None
    key = None
    for e in p.events:
        if e[0] == 'write' and isinstance(e[1], tuple) and e[1][0] == 'fld' and e[1][2] == field:
            val, key = e[2], e[1]
    return key, val


def weight_terms_of(E):
    """Predicate: does term t denote the weight of entry E?"""
    def pred(t):
        t = strip_cast(t)
        for x in subterms(t):
            if isinstance(x, tuple) and x and x[0] == 'fld' and x[2] == 'policy_weight' and any(y == E for y in subterms(x)):
                return True
            if isinstance(x, tuple) and x and x[0] == 'call' and str(x[1]).split('::')[-1] in ('policy_weight', 'weigh') and \
                    any(y == E for a in x[2] for y in subterms(a)):
                return True
        return False
    return pred


def has_atom(form, sign, pred):
    return any(s == sign and pred(a) for s, a in form)


def is_one(a):
    return a == ('c', 1)


UNSYNC_CACHE = 'unsync::cache::Cache'


def _paths(ctx, nid, **kw):
    key = ('flowpaths', nid, tuple(sorted(kw.items())))
    if key in ctx.cache:
        return ctx.cache[key]
    sx = ctx.symex(inline_depth=kw.get('depth', 5), loop_visits=2)
    try:
        ps = [p for p in sx.run(nid) if not p.diverged]
    except PathLimit:
        raise CheckFailure('FLOW: path limit exceeded in %s' % nid)
    ctx.cache[key] = ps
    return ps


def _ret_components(ret, ctx=None):
    """Components of a returned tuple, or of a returned in-crate struct (then with field names)."""
    if isinstance(ret, tuple) and ret and ret[0] == 'tuple':
        return list(ret[1])
    if ctx is not None and isinstance(ret, tuple) and ret and ret[0] == 'aggr' and norm(str(ret[1])) in ctx.prog.adts:
        return list(ret[3])
    return None


def _ret_keys(ctx, nid, n):
    """How a caller selects component i of nid's result: tuple index, or field name of the returned struct."""
    b = ctx.prog.bodies[nid]
    adt = ctx.prog.adts.get(norm(b.locals[0]['ty'].get('adt') or ''))
    if adt and adt['kind'] == 'Struct':
        names = [f['name'] for f in adt['variants'][0]['fields']]
        if len(names) == n:
            return names
    return list(range(n))


INT_TYS = ('u8', 'u16', 'u32', 'u64', 'u128', 'usize')


def _is_int_record(ctx, ty):
    """(u64, u64)-like tuple or an in-crate struct of unsigned integers."""
    if ty['s'].startswith('(') and all(x.strip() in INT_TYS for x in ty['s'].strip('()').split(',') if x.strip()):
        return True
    adt = ctx.prog.adts.get(norm(ty.get('adt') or ''))
    if adt and adt['kind'] == 'Struct' and adt['variants'][0]['fields']:
        return all(f['ty']['s'] in INT_TYS for f in adt['variants'][0]['fields'])
    return False


def accumulator_summary(ctx, nid):
    """For a function returning a record of integers (tuple or struct): which component accumulates removed entry counts
    (+1 per removal) and which the removed weights.  {'count': key, 'weight': key} or None."""
    key = ('accsum', nid)
    if key in ctx.cache:
        return ctx.cache[key]
    res = None
    b = ctx.prog.bodies.get(nid)
    if b is not None and _is_int_record(ctx, b.locals[0]['ty']):
        res = {}
        for p in _paths(ctx, nid):
            comps = _ret_components(p.ret, ctx)
            if not comps:
                continue
            keys = _ret_keys(ctx, nid, len(comps))
            for i, c in enumerate(comps):
                f = lin(c)
                if any(s == 1 and is_one(a) for s, a in f):
                    res['count'] = keys[i]
                if any(isinstance(strip_cast(a), tuple) and any(
                        isinstance(x, tuple) and x and x[0] in ('fld', 'call') and str(x[2] if x[0] == 'fld' else x[1]).split('::')[-1] == 'policy_weight'
                        for x in subterms(a)) for s, a in f):
                    res['weight'] = keys[i]
    ctx.cache[key] = res
    return res


def _inserted_weights(ctx, p):
    """policy_weight terms of the entries handed to HashMap::insert on this path."""
    out = set()
    for e in p.events:
        if e[0] == 'call' and e[1] == 'std::collections::HashMap::insert':
            for a in e[2]:
                for x in subterms(a):
                    if isinstance(x, tuple) and x and x[0] == 'aggr' and str(x[1]).endswith('EntryInfo'):
                        adt = ctx.prog.adts.get(norm(str(x[1])))
                        if adt:
                            names = [f['name'] for f in adt['variants'][0]['fields']]
                            if 'policy_weight' in names and names.index('policy_weight') < len(x[3]):
                                out.add(strip_cast(x[3][names.index('policy_weight')]))
    return out


def _same_key(a, b):
    """Two key arguments denote the same key (modulo Rc::clone / borrow views)."""
    def core(t):
        while isinstance(t, tuple) and t and t[0] == 'call' and str(t[1]).split('::')[-1] in ('clone', 'borrow', 'as_ref', 'deref') and t[2]:
            t = t[2][0]
        return t
    return core(a) == core(b)


def rule_flow_unsync(ctx):
    r = RuleResult('FLOW-counters(unsync)', 'on every path of every unsync cache function: a removed map entry gives back exactly its '
                   'stored weight (-) to weighted_size and 1 (-) to entry_count (directly or through a (count, weight) accumulator that '
                   'the caller subtracts component-wise); an admission adds (+) the candidate weight and 1; an update applies '
                   '-old +new; a bulk clear resets both to 0; a removal whose result is discarded is only the rejection of the '
                   "function's own candidate")
    prog = ctx.prog
    R = get_roles(ctx)
    fns = sorted(n for n in prog.bodies if n.startswith(UNSYNC_CACHE + '::') and prog.bodies[n].kind != 'closure')
    n_rem = n_adm = n_acc = 0
    inset = set(fns)
    pending = defaultdict(list)
    opaque = defaultdict(set)
    analysed = set()

    def pend(nid_, *a, **kw):
        pending[nid_].append((a, kw))
    def analyse(nid, paths):
        nonlocal n_rem, n_adm, n_acc
        b = prog.bodies[nid]
        analysed.add(nid)
        pending[nid] = []
        opaque[nid] = set()
        for p in paths:
            for e in p.events:
                if e[0] == 'call' and e[1] in inset:
                    opaque[nid].add(e[1])
        accs_self = accumulator_summary(ctx, nid)
        for p in paths:
            kws, ws = final_writes(p, 'weighted_size')
            kec, ec = final_writes(p, 'entry_count')
            fws = lin(ws) if ws is not None else []
            fec = lin(ec) if ec is not None else []
            comps = _ret_components(p.ret, ctx) or []
            # ---- removals
            for e in p.events:
                if e[0] != 'call' or e[1] not in HASHMAP_REMOVE:
                    continue
                res = e[6] if len(e) > 6 else ('call', e[1], e[2])
                if e[1].endswith('::clear'):
                    n_rem += 1
                    ok = ws == ('c', 0) and ec == ('c', 0)
                    r.instance(function=nid, event='clear', weighted_size=fmt(ws) if ws else None, entry_count=fmt(ec) if ec else None, ok=ok)
                    if not ok:
                        pend(nid, 'clear-without-reset', 'HashMap::clear',
                                  'the map is cleared but %s not reset to 0' % ('weighted_size is' if ws != ('c', 0) else 'entry_count is'),
                                  where=ctx.where(nid, e[3]), expected='weighted_size = 0 and entry_count = 0 after clear()')
                    continue
                tag = None
                for c, v in p.conds:
                    if c == ('discr', res):
                        tag = v
                used_payload = any(any(y == ('payload', res, 'Some', 0) for y in subterms(x)) for ev in p.events for x in ev[1:3] if isinstance(x, tuple))
                if tag == 0:
                    continue
                if tag is None and not used_payload:
                    # result discarded: must be the rejection of this function's own candidate
                    keyarg = e[2][1] if len(e[2]) > 1 else None
                    from_param = keyarg is not None and any(isinstance(x, tuple) and x and x[0] == 'param' for x in subterms(keyarg))
                    admits_elsewhere = any(any(ev_is(ctx, ev, 'push', 'ao') for ev in q.events) for q in paths)
                    admitted_here = any(ev_is(ctx, ev, 'push', 'ao') for ev in p.events)
                    ok = from_param and admits_elsewhere and not admitted_here
                    n_rem += 1
                    r.instance(function=nid, event='discarding-removal', key=fmt(keyarg) if keyarg else None, own_candidate_rejection=ok)
                    if not ok:
                        pend(nid, 'removal-result-discarded', 'HashMap::remove',
                                  'a map entry is removed and dropped without giving back its weight / count', where=ctx.where(nid, e[3]),
                                  expected='use the removed entry to adjust entry_count and weighted_size')
                    continue
                E = ('payload', res, 'Some', 0)
                n_rem += 1
                isw = weight_terms_of(E)
                ws_ok = has_atom(fws, -1, isw)
                # the slot was overwritten earlier on this path (HashMap::insert(key, NEW) returned Some(OLD)): what the counters hold for the
                # key is OLD's weight -- NEW, which this removal takes out of the map, has not been counted yet
                keyarg_ = e[2][1] if len(e[2]) > 1 else None
                for e0 in p.events:
                    if e0 is e:
                        break
                    if e0[0] == 'call' and e0[1] == 'std::collections::HashMap::insert' and len(e0[2]) > 1 and keyarg_ is not None and _same_key(e0[2][1], keyarg_):
                        res0 = e0[6] if len(e0) > 6 else ('call', e0[1], e0[2])
                        if any(c == ('discr', res0) and v == 1 for c, v in p.conds):
                            OLD = ('payload', res0, 'Some', 0)
                            old_back = has_atom(fws, -1, weight_terms_of(OLD))
                            r.instance(function=nid, event='removal-of-overwritten-slot', replaced_entry_weight_given_back=old_back, new_entry_weight_given_back=ws_ok)
                            if ws_ok or not old_back:
                                pend(nid, 'uncounted-weight-given-back', 'weighted_size', 'a path overwrites the entry of a key (HashMap::insert returned the old entry) and then removes the key: '
                                     'it gives back %s instead of the REPLACED entry\'s weight, which is what weighted_size holds for the key' % (
                                         'the weight of the entry it just stored' if ws_ok else 'nothing'),
                                     where=ctx.where(nid, e[3]), expected='weighted_size -= old_entry.policy_weight()')
                            ws_ok = old_back or ws_ok
                ec_ok = has_atom(fec, -1, is_one)
                via = 'direct'
                if not (ws_ok and ec_ok) and comps:
                    # accumulator style: returned (count, weight)
                    aw = any(has_atom(lin(c), 1, isw) for c in comps)
                    ac = any(has_atom(lin(c), 1, is_one) for c in comps)
                    ws_ok = ws_ok or aw
                    ec_ok = ec_ok or ac
                    via = 'accumulator'
                if not ws_ok:
                    # victims: the aggregate computed by the admission scan is subtracted instead
                    # (a projection of the admission scan's result; that it is the sum of the victims' weights is FLOW-admit-sums)
                    adm_fn = named(ctx, 'unsync.admit')

                    def _of_admission(a):
                        a = strip_cast(a)
                        proj = False
                        while isinstance(a, tuple) and a and a[0] in ('payload', 'fld'):
                            a = a[1]; proj = True
                        return proj and isinstance(a, tuple) and a and a[0] == 'call' and a[1] == adm_fn
                    ws_ok = any(s == -1 and _of_admission(a) for s, a in fws)
                    via = 'admission-aggregate'
                r.instance(function=nid, event='removal', entry=fmt(E)[:60], via=via, weighted_size=fmt(ws)[:90] if ws else None,
                           entry_count=fmt(ec)[:60] if ec else None, weight_given_back=ws_ok, count_given_back=ec_ok)
                if not ws_ok:
                    wrong = [fmt(a)[:50] for s, a in fws if s == -1] or [fmt(c)[:50] for c in comps]
                    pend(nid, 'weight-not-given-back', 'weighted_size',
                              'a path removes a map entry but its weight does not reach weighted_size with sign - (what is subtracted: %s)' % wrong,
                              where=ctx.where(nid, e[3]), path=[fmt(c) + ' == ' + str(v) for c, v in p.conds][:8],
                              expected='weighted_size -= removed.policy_weight (directly or via an additive accumulator)')
                if not ec_ok:
                    pend(nid, 'count-not-given-back', 'entry_count',
                              'a path removes a map entry but entry_count is not decremented by 1', where=ctx.where(nid, e[3]),
                              path=[fmt(c) + ' == ' + str(v) for c, v in p.conds][:8], expected='entry_count -= 1 per removed entry')
            # ---- accumulator-returning callees: subtract component-wise
            for e in p.events:
                if e[0] != 'call' or e[1] not in prog.bodies:
                    continue
                acc = accumulator_summary(ctx, e[1])
                if not acc or 'count' not in acc or 'weight' not in acc:
                    continue
                n_acc += 1
                res = e[6] if len(e) > 6 else ('call', e[1], e[2])
                cw = ('fld', res, acc['weight'])
                cc = ('fld', res, acc['count'])
                ws_ok = any(s == -1 and strip_cast(a) == cw for s, a in fws)
                ec_ok = any(s == -1 and strip_cast(a) == cc for s, a in fec)
                # closures returning the tuple straight through (evict_expired's rm_expired_ao) are inlined, so res is the callee's
                r.instance(function=nid, event='accumulator-call', callee=e[1], weight_component_subtracted=ws_ok, count_component_subtracted=ec_ok)
                if not ws_ok:
                    pend(nid, 'accumulator-weight-not-applied', e[1].split('::')[-1],
                              'the removed-weight component returned by %s is not subtracted from weighted_size (subtracted: %s)' % (
                                  e[1], [fmt(a)[:50] for s, a in fws if s == -1]), where=ctx.where(nid, e[3]))
                if not ec_ok:
                    pend(nid, 'accumulator-count-not-applied', e[1].split('::')[-1],
                              'the removed-count component returned by %s is not subtracted from entry_count (subtracted: %s)' % (
                                  e[1], [fmt(a)[:50] for s, a in fec if s == -1]), where=ctx.where(nid, e[3]))
            # ---- admissions
            adm = [e for e in p.events if ev_is(ctx, e, 'push', 'ao')]
            if adm:
                n_adm += 1
                ws_ok = any(s == 1 and isinstance(strip_cast(a), tuple) and strip_cast(a)[0] == 'param' for s, a in fws)
                if not ws_ok:
                    # analysed from the entry point (handler inlined): the candidate weight is the weight stored in the inserted entry
                    iw = _inserted_weights(ctx, p)
                    ws_ok = any(s == 1 and strip_cast(a) in iw for s, a in fws)
                ec_ok = has_atom(fec, 1, is_one)
                r.instance(function=nid, event='admission', weighted_size=fmt(ws)[:90] if ws else None, entry_count=fmt(ec)[:60] if ec else None,
                           weight_added=ws_ok, count_added=ec_ok)
                if not ws_ok:
                    pend(nid, 'admission-weight-not-added', 'weighted_size', 'an admission path does not add the candidate weight to weighted_size',
                              where=ctx.where(nid, adm[0][3]), expected='weighted_size += policy_weight')
                if not ec_ok:
                    pend(nid, 'admission-count-not-added', 'entry_count', 'an admission path does not add 1 to entry_count',
                              where=ctx.where(nid, adm[0][3]), expected='entry_count += 1')
        # ---- update role: replaces an entry in place
        if nid == named(ctx, 'unsync.update_handler') or (b.argc >= 5 and 'ValueEntry' in b.locals[b.argc]['ty']['s'] and not b.locals[b.argc]['ty']['s'].startswith('&')):
            old = ('param', b.argc)
            for p in paths:
                kws, ws = final_writes(p, 'weighted_size')
                fws = lin(ws) if ws is not None else []
                isold = weight_terms_of(old)
                sub_old = has_atom(fws, -1, isold)
                add_new = any(s == 1 and isinstance(strip_cast(a), tuple) and strip_cast(a)[0] == 'param' for s, a in fws)
                kpw, pw = final_writes(p, 'policy_weight')
                stored = pw is not None and strip_cast(pw)[0] == 'param'
                same = stored and any(s == 1 and strip_cast(a) == strip_cast(pw) for s, a in fws)
                kec, ec = final_writes(p, 'entry_count')
                r.instance(function=nid, event='update', weighted_size=fmt(ws)[:90] if ws else None, sub_old=sub_old, add_new=add_new,
                           stores_new_weight=stored, same_term=same, entry_count_untouched=ec is None)
                # an update that establishes new == old weight on this path has nothing to re-account
                same_weight = any(isinstance(c, tuple) and c[0] == 'cmp' and c[1] == 'eq' and v is True and any(isold(y) for y in (c[2], c[3])) and
                                  any(isinstance(strip_cast(y), tuple) and strip_cast(y)[0] == 'param' for y in (c[2], c[3])) for c, v in p.conds)
                if same_weight and ws is None:
                    continue
                if not (sub_old and add_new and same):
                    r.violate(nid, 'update-weight', 'weighted_size', 'an in-place update does not apply  -old_weight +new_weight  with the weight it stores in the entry',
                              where=ctx.where(nid), expected='weighted_size = weighted_size - old.policy_weight + new_weight; entry.policy_weight = new_weight')
                if ec is not None:
                    r.violate(nid, 'update-count', 'entry_count', 'an in-place update changes entry_count', where=ctx.where(nid))
    def interesting(nid):
        reach_ext = set()
        for x in prog.reachable_from([nid]):
            if x in inset or (prog.bodies[x].root in inset):
                reach_ext |= R.ext_calls.get(x, set())
        return bool(reach_ext & (HASHMAP_REMOVE | {'std::collections::HashMap::insert'})) or \
            any(accumulator_summary(ctx, c) for c in prog.callees(nid) if c in prog.bodies and c.startswith(UNSYNC_CACHE)) or \
            nid == named(ctx, 'unsync.update_handler')
    for nid in fns:
        if interesting(nid):
            analyse(nid, _paths(ctx, nid))
    # A private helper that does only part of the bookkeeping (links the candidate, removes the victims, ...) is not judged on its own:
    # its events are re-judged, in context, on the paths of every caller with the helper inlined.  Its own verdict stands when it is an
    # entry point (public, or called from outside this impl) or when some caller could not inline it.
    pub = set(prog.public_api())
    callers_in = defaultdict(set)
    for nid in fns:
        for c in prog.callers().get(nid, ()):
            root = prog.bodies[c].root if (c in prog.bodies and prog.bodies[c].kind == 'closure' and prog.bodies[c].root) else c
            callers_in[nid].add(root)

    def is_entry(nid):
        cs = callers_in.get(nid, set()) - {nid}
        return nid in pub or not cs or any(c not in inset for c in cs)
    force = set()
    for _round in range(4):
        new = {nid for nid, items in pending.items() if items and not is_entry(nid)} - force
        if not new:
            break
        force |= new
        redo = sorted(g for g in fns if g not in force and interesting(g) and (prog.reachable_from([g]) & force))
        for g in redo:
            sx = ctx.symex(inline_depth=6, loop_visits=2, inline_pred=lambda n_, b_, d_: True if n_ in force else None)
            try:
                ps = [p for p in sx.run(g) if not p.diverged]
            except PathLimit:
                raise CheckFailure('FLOW-counters(unsync): path limit exceeded in %s with %s inlined' % (g, sorted(force)))
            analyse(g, ps)
    def rejudged(f, stack):
        cs_ = callers_in.get(f, set()) - {f}
        if f not in force or not cs_ or f in stack:
            return False
        return all((c in force and rejudged(c, stack + (f,))) or (c not in force and c in analysed and f not in opaque[c]) for c in cs_)
    for nid, items in sorted(pending.items()):
        if not items:
            continue
        cs = callers_in.get(nid, set()) - {nid}
        if is_entry(nid) or not rejudged(nid, ()):
            for a_, kw_ in items:
                r.violate(nid, *a_, **kw_)
        else:
            r.notes.append('%s: %d partial-bookkeeping verdict(s) re-judged in its callers %s' % (nid, len(items), sorted(cs)))
    if (n_rem < 9 or n_adm < 2) and not r.violations:
        raise CheckFailure('FLOW-counters(unsync): analysed only %d removal / %d admission events (expected >= 9 / 2)' % (n_rem, n_adm))
    r.floor = ((9, 2), 'removal / admission events')
    r.notes.append('accumulator call sites judged component-wise: %d' % n_acc)
    # AUTH-counter-writers: only functions analysed above write the counters
    for f in ('entry_count', 'weighted_size'):
        for w in ctx.eff.who_has(('write', UNSYNC_CACHE, f)):
            ok = w.startswith(UNSYNC_CACHE + '::') and prog.bodies[w].kind != 'closure'
            r.instance(counter=f, writer=w, analysed=ok)
            if not ok:
                r.violate(w, 'counter-writer', f, 'unexpected writer of unsync Cache.%s' % f, where=ctx.where(w))
    return r


def rule_flow_admit_sums_unsync(ctx):
    r = RuleResult('FLOW-admit-aggregate(unsync)', 'the aggregate weight the unsync admission scan reports for its victims is the (+) sum of the '
                   "weigher applied to each scanned victim's own key and value (or the default weight 1), and nothing derived from "
                   'the candidate')
    nid = named(ctx, 'unsync.admit')
    ctx.body(nid)
    paths = _paths(ctx, nid)
    seen = 0
    for p in paths:
        ret = p.ret
        if not (isinstance(ret, tuple) and ret and ret[0] == 'aggr'):
            continue

        # the verdict that carries data (an enum variant with fields, or Some(record)): its leaves are the victim list and the aggregate(s)
        def _leaves(t_):
            if isinstance(t_, tuple) and t_ and t_[0] == 'aggr':
                for ch in t_[3]:
                    yield from _leaves(ch)
            else:
                yield t_
        for c in _leaves(ret):
            if isinstance(c, tuple) and c and c[0] == 'coll':
                continue
            f = lin(c)
            if len(f) == 1 and isinstance(f[0][1], tuple) and f[0][1][0] in ('call', 'unk', 'local', 'default') and not f[0][1][0] == 'c':
                # the victim node list (SmallVec) -- not an integer aggregate
                if 'efault' in str(f[0][1]) or 'SmallVec' in str(f[0][1]):
                    continue
            seen += 1
            bad = []
            for s_, a in f:
                a0 = strip_cast(a)
                from_cand = any(isinstance(x, tuple) and x and x[0] == 'param' and x[1] == 1 for x in subterms(a0))
                is_default = a0 == ('c', 1)
                is_weigher = any(isinstance(x, tuple) and x and x[0] == 'call' and (x[1] == 'callback' or str(x[1]).split('::')[-1] in ('weigh', 'policy_weight', 'call_mut', 'call'))
                                 for x in subterms(a0)) and any(isinstance(x, tuple) and x and x[0] == 'fld' and x[2] == 'element' for x in subterms(a0))
                if s_ != 1 or from_cand or not (is_default or is_weigher):
                    bad.append(fmt(a0)[:80])
            r.instance(function=nid, component=fmt(c)[:100], ok=not bad)
            if bad:
                r.violate(nid, 'victims-aggregate-origin', 'Admitted', 'the victims weight reported by the admission scan is not the sum of the victims\' '
                          'weights (it contains: %s)' % bad, where=ctx.where(nid), expected='victims_weight = sum of weigh(victim.key, victim.value)')
    r.require_floor(1, 'Admitted aggregates')
    return r


# ------------------------------------------------------------------------------------------------ sync

SYNC_INNER = 'sync::base_cache::Inner'


def _released_weight_booked(ctx, nid):
    """The remove role `nid` returns the weight to release: at every call site the result is handed to a function that, for Some(w), subtracts
    1 from the entry counter and w from the weighted size of the run counters."""
    key = ('released-booked', nid)
    if key in ctx.cache:
        return ctx.cache[key]
    prog = ctx.prog
    ok, sites = True, 0

    def books(fn):
        if fn not in prog.bodies:
            return False
        good = False
        for q in _paths(ctx, fn):
            kws, ws = final_writes(q, 'weighted_size')
            kec, ec = final_writes(q, 'entry_count')
            if ws is None and ec is None:
                continue
            fws, fec = (lin(ws) if ws is not None else []), (lin(ec) if ec is not None else [])
            if has_atom(fec, -1, is_one) and any(s == -1 and any(isinstance(x, tuple) and x and x[0] in ('param', 'payload') for x in subterms(a)) for s, a in fws):
                good = True
            else:
                return False
        return good
    for c_ in sorted({(prog.bodies[x].root or x) if prog.bodies[x].kind == 'closure' else x for x in prog.callers().get(nid, ())}):
        try:
            ps = [q for q in ctx.symex(inline_depth=3, loop_visits=2, inline_pred=lambda n_, bb, d, _n=nid: False if n_ == _n else None).run(c_) if not q.diverged]
        except PathLimit:
            ctx.cache[key] = False
            return False
        for q in ps:
            for i, e in enumerate(q.events):
                if e[0] == 'call' and e[1] == nid:
                    sites += 1
                    res = e[6] if len(e) > 6 else ('call', e[1], e[2])
                    used = any(ev[0] == 'call' and ev[1] in prog.bodies and any(any(y == res for y in subterms(a)) for a in ev[2]) and books(ev[1]) for ev in q.events[i + 1:])
                    if not used:
                        # the booking helper was stepped into: its writes are on this path
                        later = q.events[i + 1:]
                        w_ok = any(ev[0] == 'write' and has_field(ev[1], ('weighted_size',)) and any(y == res for y in subterms(ev[2])) and
                                   any(s_ == -1 for s_, a_ in lin(ev[2])) for ev in later)
                        c_ok = any(ev[0] == 'write' and has_field(ev[1], ('entry_count',)) and has_atom(lin(ev[2]), -1, is_one) for ev in later)
                        # (on the paths where the role returned None there is nothing to book)
                        none_res = any(c == ('discr', res) and v == 0 for c, v in q.conds)
                        used = (w_ok and c_ok) or none_res
                    if not used:
                        ok = False
    ctx.cache[key] = ok and sites > 0
    return ctx.cache[key]


def _remove_role_summary(ctx, nid):
    """Is `nid` a remove-role function: (entry, counters): if entry admitted -> clear flag, counters -= (1, weight),
    unlink ao + wo; else clear node pointers.  Returns (is_role, problems)."""
    b = ctx.prog.bodies[nid]
    paths = _paths(ctx, nid)
    probs = []
    saw_admitted = saw_not = False
    for p in paths:
        adm = None
        for c, v in p.conds:
            if isinstance(c, tuple) and c and c[0] == 'call' and str(c[1]).split('::')[-1] in ('load',) and 'is_admitted' in fmt(c):
                adm = v
        if adm is None:
            continue
        names = [str(e[1]).split('::')[-1] for e in p.events if e[0] == 'call']
        if adm:
            saw_admitted = True
            kws, ws = final_writes(p, 'weighted_size')
            kec, ec = final_writes(p, 'entry_count')
            fws = lin(ws) if ws is not None else []
            fec = lin(ec) if ec is not None else []
            returns_weight = isinstance(p.ret, tuple) and p.ret and ((p.ret[0] == 'aggr' and p.ret[2] == 'Some' and 'policy_weight' in fmt(p.ret)) or
                                                                    (p.ret[0] == 'call' and 'policy_weight' in fmt(p.ret)))
            if returns_weight and ws is None and ec is None:
                # the released weight is handed back to the caller: that every caller subtracts (1, weight) for it is judged at the call sites
                if not _released_weight_booked(ctx, nid):
                    probs.append('admitted path returns the weight to release but a caller does not subtract it (and 1) from the run counters')
            else:
                if not has_atom(fec, -1, is_one):
                    probs.append('admitted path does not subtract 1 from the entry count')
                if not any(s == -1 and 'policy_weight' in fmt(a) for s, a in fws):
                    probs.append('admitted path does not subtract the entry weight')
            if not any(ev_is(ctx, e, 'unlink', 'ao') for e in p.events):
                probs.append('admitted path does not unlink the access-order node')
            if not any(ev_is(ctx, e, 'unlink', 'wo') for e in p.events):
                probs.append('admitted path does not unlink the write-order node')
            cleared = any(e[0] == 'call' and str(e[1]).startswith('std::sync::atomic::') and str(e[1]).endswith('::store') and
                          'is_admitted' in fmt(e[2][0]) and e[2][1] == ('c', False) for e in p.events)
            if not cleared:
                probs.append('admitted path does not clear is_admitted')
        else:
            saw_not = True
    return (saw_admitted and saw_not), probs


def _has_counters(ctx, tys):
    """The type is the run's counter record, or a context object of this crate that carries it (`EvictionState { deqs, counters }`)."""
    if 'EvictionCounters' in tys:
        return True
    for an in ctx.prog.adts_in_type(tys):
        for v_ in ctx.prog.adts[an]['variants']:
            if any('EvictionCounters' in f_['ty']['s'] for f_ in v_['fields']):
                return True
    return False


def rule_flow_sync(ctx):
    r = RuleResult('FLOW-counters(sync)', 'maintenance adjusts its run counters on every path: an update applies -old_weight +new_weight as carried '
                   'by the write op; an admission adds 1 and the op\'s new_weight; every entry removed from the map by maintenance or '
                   'queued as WriteOp::Remove reaches the remove role (if admitted: clear flag, -1, -weight, unlink both nodes); '
                   'Inner.entry_count / weighted_size are stored only by the maintenance run, after everything else')
    prog = ctx.prog
    if SYNC_INNER + '::handle_upsert' not in prog.bodies and not any(n.startswith('sync::') for n in prog.bodies):
        return r
    R = get_roles(ctx)
    if True:
        from .roles import upsert_fields as _uf
        fl = _uf(ctx)
        if fl and not {'old_weight', 'new_weight'} <= set(fl):
            # the op no longer fixes both weights when it is created: whatever is read later (the shared EntryInfo) has been overwritten by
            # the ops queued after it
            r.violate('common::concurrent::WriteOp', 'op-weights-missing', 'Upsert', 'WriteOp::Upsert carries %s: an upsert must record BOTH the replaced weight and its own new weight at the '
                      'time it is created -- ops of one key are applied later, in order, and each must apply exactly its own delta' % [f for f in fl if 'weight' in f],
                      expected='Upsert { key_hash, value_entry, old_weight, new_weight }')
            return r
    # remove-role functions
    roles = {}
    for nid, b in prog.bodies.items():
        if not nid.startswith(SYNC_INNER + '::') or b.kind == 'closure':
            continue
        takes_entry = any('ValueEntry' in l['ty']['s'] and not l['ty']['s'].startswith('&') for l in b.locals[1:b.argc + 1])
        gives_back = b.locals[0]['ty']['s'] in ('std::option::Option<u32>', 'u32')     # the released weight is returned, the caller books it
        if takes_entry and (any(_has_counters(ctx, l['ty']['s']) for l in b.locals[1:b.argc + 1]) or gives_back):
            from .roles import upsert_role
            ur = upsert_role(ctx)
            if ur and ur['nid'] == nid:
                continue
            is_role, probs = _remove_role_summary(ctx, nid)
            if is_role:
                roles[nid] = probs
    # a shared body that leaves a step (e.g. the unlinking, passed in as a closure) to its callers is judged through them: its own
    # summary counts only if some caller is not itself a complete remove role
    for nid, probs in sorted(roles.items()):
        cs = {(prog.bodies[c].root if prog.bodies[c].kind == 'closure' and prog.bodies[c].root else c) for c in prog.callers().get(nid, ())} - {nid}
        through_callers = bool(probs) and bool(cs) and all(c in roles and not roles[c] for c in cs)
        r.instance(function=nid, role='remove-role', problems=probs, judged_through_callers=sorted(cs) if through_callers else None)
        if through_callers:
            continue
        # the unlinking handed in as a closure by every caller (a constructor function may build it): judged per call site
        UNL = {'admitted path does not unlink the access-order node': 'ao', 'admitted path does not unlink the write-order node': 'wo'}
        bR = prog.bodies[nid]
        fn_params = [i for i in range(1, bR.argc + 1) if ('Fn' in bR.local_ty(i)['s'] or 'closure' in bR.local_ty(i)['s'])]
        if probs and set(probs) <= set(UNL) and fn_params:
            okall, nsites = True, 0
            for c_ in sorted(prog.callers().get(nid, ())):
                bc = prog.bodies[c_]
                for bi_, t_ in bc.calls():
                    if nid not in prog.call_targets(bc, t_)[0]:
                        continue
                    nsites += 1
                    clos = []
                    for i in fn_params:
                        if i - 1 < len(t_['args']):
                            clos += prog.closure_of_operand(bc, t_['args'][i - 1])
                    kinds = set()
                    for cl in clos:
                        for x in prog.reachable_from([cl]):
                            wk = wrapper_kind(ctx, x)
                            if wk and wk[0] == 'unlink':
                                kinds.add(wk[1])
                    good = kinds >= {UNL[p_] for p_ in probs}
                    r.instance(function=nid, call_site_in=c_, unlink_closure=[x.split('::')[-2] + '::' + x.split('::')[-1] for x in clos], unlinks=sorted(kinds), ok=good)
                    if not good:
                        okall = False
                        r.violate(c_, 'remove-role', 'unlink-closure:%s' % ','.join(sorted({UNL[p_] for p_ in probs} - kinds)), '%s calls the remove role %s with an unlink step that does not '
                                  'unlink the %s node(s)' % (c_, nid, sorted({UNL[p_] for p_ in probs} - kinds)), where=ctx.where(c_, t_.get('line')))
            if nsites and okall:
                continue
        for pr in probs:
            r.violate(nid, 'remove-role', pr, 'remove role %s: %s' % (nid, pr), where=ctx.where(nid))
    # (how many there are is free -- two specialised ones or one taking the unlinking as a closure; that every removed entry reaches one is
    # the clause `removed-entry-dropped` below)
    if len(roles) < 1:
        raise CheckFailure('FLOW-counters(sync): no remove-role function found')
    # the upsert role: function consuming (old_weight, new_weight) of a write op
    from .roles import upsert_role
    ur = upsert_role(ctx)
    if not ur:
        raise CheckFailure('FLOW-counters(sync): upsert role not found (no callee of the write-op consumer receives the fields of WriteOp::Upsert)')
    nid = ur['nid']
    b = prog.bodies[nid]
    P_old, P_new = ur['old_t'], ur['new_t']
    sx = ctx.symex(inline_depth=3, loop_visits=2,
                   inline_pred=lambda n, bb, d: False if n in roles else None)
    try:
        paths = [p for p in sx.run(nid) if not p.diverged]
    except PathLimit:
        raise CheckFailure('FLOW-counters(sync): path limit in %s' % nid)
    n_upd = n_adm = n_rem = 0
    for p in paths:
        kws, ws = final_writes(p, 'weighted_size')
        kec, ec = final_writes(p, 'entry_count')
        fws = lin(ws) if ws is not None else []
        fec = lin(ec) if ec is not None else []
        admitted_first = None
        for c, v in p.conds:
            if isinstance(c, tuple) and c[0] == 'call' and str(c[1]).endswith('::load') and 'is_admitted' in fmt(c) and admitted_first is None:
                admitted_first = v
        pushes = [e for e in p.events if ev_is(ctx, e, 'push', 'ao')]
        if admitted_first is True:
            n_upd += 1
            ec_same = ec is None or fec == [(1, kec)]
            ok = any(s == -1 and strip_cast(a) == P_old for s, a in fws) and any(s == 1 and strip_cast(a) == P_new for s, a in fws) and ec_same
            r.instance(function=nid, event='update', weighted_size=fmt(ws)[:80] if ws else None, ok=ok)
            if not ok:
                r.violate(nid, 'update-weight', 'counters', 'the update arm of the write-op consumer does not apply -old_weight +new_weight of the op',
                          where=ctx.where(nid), expected='counters.weighted_size += new_weight - old_weight; entry_count unchanged')
            continue
        if pushes:
            n_adm += 1
            ws_ok = any(s == 1 and strip_cast(a) == P_new for s, a in fws)
            ec_ok = has_atom(fec, 1, is_one)
            r.instance(function=nid, event='admission', weighted_size=fmt(ws)[:90] if ws else None, entry_count=fmt(ec)[:60] if ec else None,
                       adds_op_weight=ws_ok, adds_one=ec_ok)
            if not ws_ok:
                added = [fmt(a)[:60] for s, a in fws if s == 1][1:]
                r.violate(nid, 'admission-weight-origin', 'new_weight',
                          'an admission adds %s to the run counters instead of the write op\'s new_weight (a queued op must book the weight it was created with: '
                          'the shared EntryInfo may already carry a later update)' % added, where=ctx.where(nid, pushes[0][3]),
                          expected='counters.saturating_add(1, new_weight)')
            if not ec_ok:
                r.violate(nid, 'admission-count', 'entry_count', 'an admission does not add 1 to the run entry count', where=ctx.where(nid, pushes[0][3]))
        # removals inside the upsert role (victims)
        for e in p.events:
            if e[0] == 'call' and e[1] in DASHMAP_REMOVE:
                res = e[6] if len(e) > 6 else ('call', e[1], e[2])
                tag = None
                for c, v in p.conds:
                    if c == ('discr', res):
                        tag = v
                if tag != 1:
                    continue
                n_rem += 1
                E = ('payload', res, 'Some', 0)
                reaches = any(ev[0] == 'call' and ev[1] in roles and any(any(y == E for y in subterms(a)) for a in ev[2]) for ev in p.events)
                r.instance(function=nid, event='victim-removal', reaches_remove_role=reaches)
                if not reaches:
                    r.violate(nid, 'removed-entry-dropped', e[1].split('::')[-1], 'an entry removed from the map by maintenance does not reach the remove role',
                              where=ctx.where(nid, e[3]))
    # every path of the upsert role either books the op or has established that the entry is not admitted yet
    for p in paths:
        knows = any(isinstance(c, tuple) and c[0] == 'call' and str(c[1]).endswith('::load') and 'is_admitted' in fmt(c) and
                    any(y == ur['entry_t'] for y in subterms(c)) for c, v in p.conds)
        if not knows:
            r.instance(function=nid, event='path-without-admitted-test', conds=[fmt(c)[:50] for c, v in p.conds][:4])
            r.violate(nid, 'op-dropped-before-admitted-test', 'is_admitted', 'a path of the write-op consumer returns without having tested whether the '
                      'entry is already admitted: the weight change of an update op can be dropped', where=ctx.where(nid),
                      path=[fmt(c) + ' == ' + str(v) for c, v in p.conds][:6], expected='test entry.is_admitted() first; an admitted entry always books -old +new')
    # MUST-clear-dirty: the dirty flag ("an update of this entry is waiting in the queue") lives in the EntryInfo shared by all versions of a key.
    # Applying an op clears it exactly when the op is for the version the map holds now (identity of the map's value with the op's value entry):
    # cleared on every such path -- otherwise the entry is skipped by eviction / expiry for ever -- and on no other path -- otherwise a newer
    # update is still pending while the entry looks settled, and removal-of-pending-update below is defeated.
    from .rules_live import literals_of

    def _latest_fact(p):
        """True / False / None: did the path establish that the map holds the op's own value entry?"""
        for c, v in literals_of(p.conds):
            if isinstance(c, tuple) and c[0] == 'call' and str(c[1]).split('::')[-1] == 'ptr_eq' and isinstance(v, bool):
                a_ = [fmt(x) for x in c[2]]
                if any('DashMap::get' in x for x in a_) and not any('.info' in x or 'entry_info' in x for x in a_):
                    return v
        return None
    for p in paths:
        cleared = any(e[0] == 'call' and str(e[1]).startswith('std::sync::atomic::') and str(e[1]).endswith('::store') and 'is_dirty' in fmt(e[2][0]) and e[2][1] == ('c', False) for e in p.events)
        latest = _latest_fact(p)
        absent = any(isinstance(c, tuple) and c[0] == 'discr' and v == 0 and 'DashMap::get' in fmt(c) for c, v in p.conds)
        r.instance(function=nid, event='dirty-flag', cleared=cleared, op_is_for_the_mapped_version=latest, key_absent=absent)
        if cleared and latest is not True:
            r.violate(nid, 'dirty-cleared-for-stale-version', 'is_dirty', 'a path of the write-op consumer clears the shared is_dirty flag without having established that the op is for the value '
                      'entry the map holds now: with a newer update of the key still queued the entry looks settled, is picked as a victim / evicted, and gives back the queued '
                      'update\'s weight instead of the counted one', where=ctx.where(nid), path=[fmt(c)[:60] + ' == ' + str(v) for c, v in p.conds][:6],
                      expected='if map.get(key) is this very value entry { entry.set_dirty(false) }')
            break
        if latest is True and not cleared:
            r.violate(nid, 'dirty-not-cleared', 'is_dirty', 'a path of the write-op consumer applies the op for the mapped version of an entry but does not clear is_dirty: the entry stays "being '
                      'updated" for ever and the eviction / expiry scans skip it (a more recently used entry is evicted instead)', where=ctx.where(nid),
                      path=[fmt(c)[:60] + ' == ' + str(v) for c, v in p.conds][:6], expected='entry.set_dirty(false) when the op is for the mapped version')
            break
    if (n_upd < 1 or n_adm < 2) and not r.violations:
        raise CheckFailure('FLOW-counters(sync): analysed %d update / %d admission paths in %s' % (n_upd, n_adm, nid))
    # other removal sites in maintenance and in invalidate
    for fn, b2 in sorted(prog.bodies.items()):
        if not fn.startswith('sync::') or fn == nid or b2.kind == 'closure':
            continue
        if not (R.ext_calls[fn] & DASHMAP_REMOVE):
            continue
        sx2 = ctx.symex(inline_depth=2, loop_visits=2, inline_pred=lambda n, bb, d: False if n in roles else None)
        for p in [q for q in sx2.run(fn) if not q.diverged]:
            for e in p.events:
                if e[0] == 'call' and e[1] in DASHMAP_REMOVE:
                    res = e[6] if len(e) > 6 else ('call', e[1], e[2])
                    tag = None
                    for c, v in p.conds:
                        if c == ('discr', res):
                            tag = v
                    used = any(any(y == ('payload', res, 'Some', 0) for y in subterms(x)) for ev in p.events if ev is not e for x in ev[1:3] if isinstance(x, tuple)) or \
                        (p.ret is not None and any(y == ('payload', res, 'Some', 0) for y in subterms(p.ret)))
                    if tag == 0:
                        continue
                    n_rem += 1
                    E = ('payload', res, 'Some', 0)
                    to_role = any(ev[0] == 'call' and ev[1] in roles and any(any(y == E for y in subterms(a)) for a in ev[2]) for ev in p.events)
                    returned = p.ret is not None and any(y == E for y in subterms(p.ret))
                    own_reject = (tag is None and not used)
                    r.instance(function=fn, event='removal', reaches_remove_role=to_role, returned_to_caller=returned, discarded=own_reject)
                    if own_reject:
                        # allowed only as identity-guarded rejection of the op's own candidate (checked by STALE-removal)
                        continue
                    if not (to_role or returned):
                        r.violate(fn, 'removed-entry-dropped', e[1].split('::')[-1], 'an entry removed from the map does not reach the remove role '
                                  '(its weight / count / nodes are never given back)', where=ctx.where(fn, e[3]))
    # invalidate: removed entry -> WriteOp::Remove -> scheduled
    inv = 'sync::cache::Cache::invalidate'
    if inv in prog.bodies:
        for p in [q for q in ctx.symex(inline_depth=3).run(inv) if not q.diverged]:
            rem = [e for e in p.events if e[0] == 'call' and e[1] in DASHMAP_REMOVE]
            if not rem:
                r.violate(inv, 'no-removal', 'DashMap::remove', 'invalidate has a path without map removal', where=ctx.where(inv))
                continue
            res = rem[0][6] if len(rem[0]) > 6 else None
            tag = None
            for c, v in p.conds:
                if c == ('discr', res):
                    tag = v
            if tag == 1:
                sent = any(ev[0] == 'call' and (ev[1] in write_scheduler(ctx) or str(ev[1]).endswith('try_send')) and
                           any('Remove(' in fmt(a) and any(y == res for y in subterms(a)) for a in ev[2]) for ev in p.events)
                r.instance(function=inv, event='removal', queued_as_remove_op=sent)
                n_rem += 1
                if not sent:
                    r.violate(inv, 'remove-op-not-queued', 'WriteOp::Remove', 'invalidate removes the entry from the map but does not queue WriteOp::Remove for it: '
                              'its weight, count and deque nodes are never given back', where=ctx.where(inv))
    # the Remove arm of the consumer passes the entry to the remove role
    cons = [n for n in prog.bodies if n.startswith(SYNC_INNER) and prog.bodies[n].kind != 'closure' and 'WriteOp' in recv_types(ctx, n)]
    for cn in cons:
        callees = prog.callees(cn)
        ok = bool(callees & set(roles)) and nid in callees
        r.instance(function=cn, role='write-op consumer', calls_remove_role=bool(callees & set(roles)), calls_upsert_role=nid in callees)
        if not ok:
            r.violate(cn, 'consumer-arms', 'WriteOp', 'the write-op consumer does not dispatch Upsert to the upsert role and Remove to the remove role', where=ctx.where(cn))
    if not cons:
        raise CheckFailure('FLOW-counters(sync): write-op consumer not found')
    # counted weight == shared weight at removal: the remove role gives back `entry.policy_weight()`, the weight in the EntryInfo shared by all
    # versions of the key.  insert() overwrites it when an update is *created*, the counters follow only when the update op is *applied*.  So an
    # entry that maintenance itself picks for removal (admission victim, LRU eviction) must not have an update pending (dirty); an expiry
    # predicate evaluated on the map's current value is exempt (a current value that is expired / invalidated has no newer write).
    from .rules_live import literals_of, classify_literal
    nsites = 0
    for fn_ in sorted(n_ for n_ in prog.bodies if n_.startswith(SYNC_INNER + '::') and prog.bodies[n_].kind != 'closure'):
        bf = prog.bodies[fn_]
        sites = [(bi_, t_) for bi_, t_ in bf.calls() if prog.call_targets(bf, t_)[1] == 'dashmap::DashMap::remove_if']
        if not sites or not (prog.reachable_from([fn_]) & set(roles)):
            continue
        try:
            fpaths = [p for p in ctx.symex(inline_depth=2, loop_visits=2, inline_pred=lambda n_, bb, d: False if n_ in roles else None).run(fn_) if not p.diverged]
        except PathLimit:
            raise CheckFailure('FLOW-counters(sync): path limit in %s' % fn_)
        for bi_, t_ in sites:
            _tg, _ext, passed_ = prog.call_targets(bf, t_)
            clo_ = passed_[0] if passed_ else None
            pred_dirty = pred_expiry = False
            if clo_:
                tr_paths = 0
                dirty_ok = True
                for cp in ctx.symex(inline_depth=5).run(clo_):
                    if cp.diverged or cp.ret == ('c', False):
                        continue
                    lits_ = literals_of(cp.conds, [] if cp.ret == ('c', True) else [(cp.ret, True)])
                    tr_paths += 1
                    if not any(v_ is False and 'is_dirty' in fmt(t2) for t2, v_ in lits_):
                        dirty_ok = False
                    if any((classify_literal(t2, v_) or {}).get('what') in ('deadline', 'watermark') for t2, v_ in lits_):
                        pred_expiry = True
                pred_dirty = bool(tr_paths) and dirty_ok
            # does the removed entry reach a remove role at all (on some path)?  and is a not-dirty fact established before the removal?
            feeds = False
            path_dirty = True
            for p in fpaths:
                evs = p.events
                for i_, e_ in enumerate(evs):
                    if e_[0] == 'call' and e_[1] == 'dashmap::DashMap::remove_if' and e_[3] == t_.get('line'):
                        res_ = e_[6] if len(e_) > 6 else None
                        if any(ev2[0] == 'call' and ev2[1] in roles and any(any(y == res_ for y in subterms(a_)) for a_ in ev2[2]) for ev2 in evs[i_ + 1:]):
                            feeds = True
                            if not any(v_ is False and 'is_dirty' in fmt(c_) for c_, v_ in p.conds):
                                path_dirty = False
            if not feeds:
                continue
            nsites += 1
            ok_ = pred_dirty or pred_expiry or path_dirty
            r.instance(function=fn_, removal='remove_if@%s' % t_.get('line'), feeds_remove_role=True, predicate_requires_not_dirty=pred_dirty,
                       expiry_predicate_on_current_value=pred_expiry, not_dirty_established_before=path_dirty, ok=ok_)
            if not ok_:
                r.violate(fn_, 'removal-of-pending-update', 'remove_if', '%s removes an entry it selected itself and hands it to the remove role, which subtracts the entry\'s shared '
                          'weight, without establishing that no update of that entry is pending (is_dirty == false): with a queued update the shared weight is already the new one '
                          'while the counters still hold the old one -- weighted_size drifts for good' % fn_, where=ctx.where(fn_, t_.get('line')),
                          expected='remove_if(key, |_, v| <identity> && !v.is_dirty())  (as the LRU eviction skips dirty entries)')
    if nsites < 2 and not r.violations:
        raise CheckFailure('FLOW-counters(sync): only %d maintenance removal site(s) feeding the remove role found' % nsites)
    # FLOW-op-weights: what a write op carries is fixed when it is created, under the lock of the key's map slot
    root = named(ctx, 'sync.do_insert')
    if root in prog.bodies:
        from .roles import upsert_fields
        from .symex import OCC_GET_MUT
        fn_ = upsert_fields(ctx)
        nops = 0
        try:
            rpaths = [q for q in ctx.symex(inline_depth=6, loop_visits=2).run(root) if not q.diverged]
        except PathLimit:
            raise CheckFailure('FLOW-op-weights: path limit in %s' % root)
        for p in rpaths:
            ups = [x for x in subterms(p.ret) if isinstance(x, tuple) and x and x[0] == 'aggr' and x[2] == 'Upsert'] if p.ret is not None else []
            occupied = None
            for c_, v_ in p.conds:
                if isinstance(c_, tuple) and c_[0] == 'discr' and isinstance(c_[1], tuple) and c_[1][0] == 'call' and str(c_[1][1]).endswith('DashMap::entry'):
                    occupied = (v_ == 0)
            for u in ups:
                nops += 1
                vals = dict(zip(fn_, u[3]))
                ow, nw = vals.get('old_weight'), vals.get('new_weight')
                if occupied:
                    # the replaced entry's stored weight, read from the occupied slot itself (i.e. under the shard lock that also covers the replacement)
                    okw = isinstance(ow, tuple) and ow[0] == 'call' and str(ow[1]).endswith('::load') and 'policy_weight' in fmt(ow) and \
                        any(isinstance(x, tuple) and x and x[0] == 'call' and x[1] == OCC_GET_MUT for x in subterms(ow))
                else:
                    okw = ow == ('c', 0)
                stored = [e for e in p.events if e[0] == 'call' and str(e[1]).endswith('::store') and 'policy_weight' in fmt(e[2][0])]
                okn = isinstance(nw, tuple) and (nw[0] in ('fld', 'param', 'payload') or (nw[0] == 'call' and 'callback' in str(nw[1])) or nw == ('c', 1) or
                                                 any(len(e[2]) > 1 and e[2][1] == nw for e in stored))
                r.instance(function=root, kind='update' if occupied else 'insert', old_weight=fmt(ow)[:60], new_weight=fmt(nw)[:40], ok=bool(okw and okn))
                # an update publishes its weight in the shared entry info BEFORE it leaves the slot: the next writer of the key reads it as ITS
                # old_weight, whether or not this op has been applied by then (the ops of one key form a chain w0->w1, w1->w2, ..)
                if occupied and okw and okn and not any(len(e[2]) > 1 and e[2][1] == nw for e in stored):
                    r.violate(root, 'op-weights', 'weight-not-published', 'the update path of %s creates Upsert{old_weight: stored weight, new_weight: `%s`} but does not store that new weight into the '
                              'shared entry info while it holds the slot: a second update queued before maintenance runs reads the same stale old_weight, and the counters drift by the '
                              'difference' % (root, fmt(nw)[:40]), where=ctx.where(root), expected='entry_info.set_policy_weight(new_weight) in the update arm')
                if not (okw and okn):
                    r.violate(root, 'op-weights', 'old=%s' % ('slot' if occupied else 'vacant'), 'the write op created by %s on the %s path carries old_weight `%s` / new_weight `%s`: an update must carry the '
                              'replaced entry\'s stored weight read from the map slot it replaces (under the same shard lock -- unconditionally, it is applied after every earlier op of that '
                              'entry), an insert 0, both the new weigher result' % (root, 'occupied-slot' if occupied else 'vacant-slot', fmt(ow)[:60], fmt(nw)[:40]),
                              where=ctx.where(root), expected='Upsert { old_weight: slot.policy_weight() | 0, new_weight: weight }')
        if nops < 2 and not r.violations:
            raise CheckFailure('FLOW-op-weights: only %d write op(s) found on the paths of %s' % (nops, root))
    # AUTH-admitted-writer: the `admitted` flag of an entry says "this entry is linked and counted"; the remove role branches on it.  Only the
    # maintenance run (admission sets it, the remove role clears it) may write it -- a writer that clears it before queueing the removal makes
    # the remove role skip the unlinking and the counter give-back
    flag_fields = [(an, f_['name']) for an, a_ in prog.adts.items() if an.startswith('common::concurrent::') for v_ in a_['variants'] for f_ in v_['fields']
                   if 'admitted' in str(f_['name'])]
    flag_writers = set()
    for an, fn2 in flag_fields:
        flag_writers |= set(ctx.eff.who_has(('write', an, fn2)))
    if flag_fields and flag_writers:
        for pp in sorted(prog.public_api()):
            if not pp.startswith(('sync::', '<sync::')):
                continue
            path = prog.call_path(pp, lambda y: y in flag_writers, avoid=R.maintenance)
            r.instance(public_entry=pp, writes_admitted_flag_outside_maintenance=bool(path))
            if path:
                r.violate(pp, 'admitted-flag-writer', path[-1].split('::')[-1], '%s can write the `admitted` flag of an entry outside the maintenance run (%s): the remove role later takes the entry for '
                          'one that never had deque nodes, so its nodes, its weight and its count are never given back' % (pp, ' -> '.join(x.split('::')[-1] for x in path)),
                          where=ctx.where(path[-2] if len(path) > 1 else pp), path=path, expected='only handle_admit / the remove role write is_admitted')
    elif ctx.has_sync:
        raise CheckFailure('FLOW-counters(sync): the admitted flag and its writers were not found')
    # AUTH-counter-writers / MUST-publish
    maint = sorted(R.maintenance)
    for f in ('entry_count', 'weighted_size'):
        # the published counter: the AtomicCell<u64> of that name in the cache state, or in a crate-local struct the state holds (a `Usage` type)
        locs = [(an, f) for an, a_ in prog.adts.items() if an.startswith('sync::') for v_ in a_['variants'] for f_ in v_['fields']
                if f_['name'] == f and 'AtomicCell' in f_['ty']['s']]
        if not locs:
            raise CheckFailure('FLOW-counters(sync): the published counter `%s` (an AtomicCell field of the cache state) was not found' % f)
        ws_ = set()
        for an, _f in locs:
            ws_ |= set(ctx.eff.who_has(('write', an, f)))
        cl_ = prog.callers()
        for w in sorted(ws_):
            # the maintenance run itself, a constructor, or a helper that only the maintenance run calls (`Usage::publish`)
            only_maint = bool(cl_.get(w)) and all(c_ in R.maintenance for c_ in cl_.get(w, ()))
            ok = w in R.maintenance or w.endswith(('::new', '::default')) or only_maint
            r.instance(counter=f, writer=w, allowed=ok)
            if not ok:
                r.violate(w, 'counter-writer', f, 'Inner.%s is written outside the maintenance run' % f, where=ctx.where(w))
        for m in maint:
            bm = prog.bodies[m]
            pdom, nodes = bm.postdominators()
            from .kernel import op_local

            def _touch(kind_, t_):
                # the call stores / loads the counter itself, or is a call of a helper that does
                tg_, ext_, _ = prog.call_targets(bm, t_)
                if ext_ and ext_.endswith('AtomicCell::' + ('store' if kind_ == 'write' else 'load')):
                    l_ = op_local(t_['args'][0])
                    return any(rg[0] == 'field' and (rg[1], rg[2]) in locs for rg in ctx.eff.points[m].get(l_, ()))
                return any(any((kind_, an, f) in ctx.eff.transitive(x) for an, _f in locs) for x in tg_)
            stores = [bi for bi, t in bm.calls() if _touch('write', t)]
            ok = any(s in pdom.get(0, set()) for s in stores)
            # the snapshot the run starts from is loaded while the maintenance lock is held
            dom_ = bm.dominators()
            locks = [bi for bi, t in bm.calls() if prog.call_targets(bm, t)[1] in ('std::sync::Mutex::lock',)]
            loads = [bi for bi, t in bm.calls() if _touch('read', t) and not _touch('write', t)]
            under = bool(locks) and all(any(lk in dom_.get(ld, ()) and lk != ld for lk in locks) for ld in loads)
            r.instance(function=m, snapshot=f, loaded_under_maintenance_lock=under)
            if loads and not under:
                r.violate(m, 'snapshot-before-lock', f, 'the maintenance run loads Inner.%s before it holds the deques lock: a run that waited for the lock publishes counters computed from a stale snapshot '
                          '(lost update when sync() overlaps housekeeping)' % f, where=ctx.where(m), expected='lock the deques first, then load the counters')
            r.instance(function=m, publish=f, store_postdominates_entry=ok)
            if not ok:
                r.violate(m, 'publish', f, 'the maintenance run does not store Inner.%s on every normal path' % f, where=ctx.where(m))
    r.floor = (n_rem, 'removal events')
    if n_rem < 6 and not r.violations:
        raise CheckFailure('FLOW-counters(sync): only %d removal events analysed (expected >= 6)' % n_rem)
    return r
