"""C17 rules: FLOW-config-names, MUST-build-validate, CMP-builder-limit, CONST-1000y, DEFAULT-consts,
FLOW-initcap-sink, SIB-new."""
from .core import RuleResult, CheckFailure
from .kernel import norm, op_local, op_place, place_fields
from .symex import fmt, subterms, PathLimit, NONE, OPTION
from .rules_live import has_call, has_field

CONFIG = ('max_capacity', 'initial_capacity', 'weigher', 'time_to_live', 'time_to_idle', 'build_hasher')
ALIASES = {'hasher': 'build_hasher', 'number_of_entries': 'initial_capacity'}
THOUSAND_YEARS = 1000 * 365 * 24 * 3600


TRANSPARENT = ('clone', 'as_ref', 'as_mut', 'new', 'into', 'from', 'cloned', 'copied', 'deref', 'borrow', 'unwrap_or_default', 'to_owned')


def _config_names_of_operand(ctx, b, o, depth=0, seen=None):
    """CONFIG names an operand *directly* denotes: a read of a field / parameter with that name, possibly through
    copies, references, casts, Some(..), clone()/as_ref() or an in-crate getter of the same name.  Computed values
    (arithmetic, other calls) denote no configuration value any more."""
    names = set()
    pl = op_place(o)
    if pl is None or depth > 8:
        return names
    fs = [f for f in place_fields(pl) if f[1] in CONFIG]
    if fs:
        return {fs[-1][1]}
    l = pl['l']
    seen = seen or set()
    if l in seen:
        return names
    seen.add(l)
    if 1 <= l <= b.argc:
        n = b.local_name(l)
        n = ALIASES.get(n, n)
        if n in CONFIG:
            names.add(n)
        return names
    for d in b.defs().get(l, []):
        if d[0] == 'assign':
            if d[3]['pl'].get('p'):
                continue
            rv = d[3]['rv']
            k = rv['rv']
            if k in ('use', 'cast'):
                names |= _config_names_of_operand(ctx, b, rv['op'], depth + 1, seen)
            elif k in ('ref', 'rawptr'):
                names |= _config_names_of_operand(ctx, b, {'k': 'copy', 'pl': rv['pl']}, depth + 1, seen)
            elif k == 'aggr' and rv.get('kind') == 'adt' and rv.get('variant') == 'Some':
                for oo in rv['ops']:
                    names |= _config_names_of_operand(ctx, b, oo, depth + 1, seen)
        else:
            t = d[3]
            targets, ext, _ = ctx.prog.call_targets(b, t)
            last = (ext or (targets[0] if targets else '')).split('::')[-1]
            if ext and last in TRANSPARENT and t['args']:
                names |= _config_names_of_operand(ctx, b, t['args'][0], depth + 1, seen)
            elif targets and len(targets) == 1 and ctx.prog.bodies[targets[0]].name in CONFIG and ctx.prog.bodies[targets[0]].argc == 1:
                names.add(ctx.prog.bodies[targets[0]].name)
    return names


def rule_flow_config_names(ctx):
    r = RuleResult('FLOW-config-names', 'a configuration value named X (max_capacity, initial_capacity, weigher, time_to_live, time_to_idle, '
                   'build_hasher) only ever flows into a parameter or struct field named X: along builder setter -> builder field -> '
                   'with_everything / BaseCache::new / Inner::new argument -> cache field -> Policy::new -> Policy getter')
    prog = ctx.prog
    n = 0
    for nid, b in sorted(prog.bodies.items()):
        if b.kind == 'closure':
            continue
        # (a) in-crate calls: argument i named X must meet callee parameter i named X
        for bi, t in b.calls():
            targets, ext, _ = prog.call_targets(b, t)
            for tg in targets:
                cb = prog.bodies[tg]
                if cb.kind == 'closure':
                    continue
                for i, a in enumerate(t['args']):
                    if i + 1 > cb.argc:
                        continue
                    pname = cb.local_name(i + 1)
                    pname = ALIASES.get(pname, pname)
                    if pname not in CONFIG:
                        continue
                    an = _config_names_of_operand(ctx, b, a)
                    if True:
                        n += 1
                        ok = (not an) or an == {pname}
                        # `self`-like receivers carry all names
                        if pname == 'self' or len(an) >= 3:
                            continue
                        r.instance(call='%s -> %s' % (nid, tg), param=pname, argument_names=sorted(an), ok=ok)
                        if not ok:
                            r.violate(nid, 'config-wire-crossed', '%s<-%s' % (pname, ','.join(sorted(an))),
                                      'in %s the argument for parameter `%s` of %s derives from configuration value(s) %s' % (nid, pname, tg, sorted(an)),
                                      where=ctx.where(nid, t.get('line')), expected='parameter `%s` receives the value named `%s`' % (pname, pname))
        # (b) struct literals with config-named fields
        for bi, si, s in b.stmts():
            rv = s['rv'] if s['st'] == 'assign' else None
            if not (rv and rv['rv'] == 'aggr' and rv.get('kind') == 'adt' and rv.get('fields')):
                continue
            for fname, o in zip(rv['fields'], rv['ops']):
                if fname not in CONFIG:
                    continue
                an = _config_names_of_operand(ctx, b, o)
                n += 1
                ok = (not an) or an == {fname}
                r.instance(constructor='%s in %s' % (norm(rv['adt']).split('::')[-1], nid), field=fname, value_names=sorted(an), ok=ok)
                if not ok:
                    r.violate(nid, 'config-field-crossed', '%s<-%s' % (fname, ','.join(sorted(an))),
                              'in %s field `%s` of %s is initialised from configuration value(s) %s' % (nid, fname, norm(rv['adt']), sorted(an)),
                              where=ctx.where(nid, s.get('line')), expected='field `%s` is initialised from the value named `%s`' % (fname, fname))
        # (c) getters: a method named X of Policy / Inner / Cache returning a config field must return field X
        if b.name in CONFIG and b.argc == 1 and not b.nid.startswith(('sync::builder', 'unsync::builder')):
            leaves = ctx.orig.of_local(b, 0)
            fields = {l[2] for l in leaves if l[0] == 'field' and l[2] in CONFIG}
            if fields:
                n += 1
                ok = fields == {b.name}
                r.instance(getter=nid, returns_fields=sorted(fields), ok=ok)
                if not ok:
                    r.violate(nid, 'getter-crossed', '%s->%s' % (b.name, ','.join(sorted(fields))), 'getter %s returns field(s) %s' % (nid, sorted(fields)),
                              where=ctx.where(nid), expected='returns self.%s' % b.name)
    # (d) builder setters: change exactly their own field, from their parameter, and preserve the rest
    for nid, b in sorted(prog.bodies.items()):
        if not (nid.startswith(('sync::builder::CacheBuilder::', 'unsync::builder::CacheBuilder::')) and b.name in CONFIG and b.argc == 2):
            continue
        sx = ctx.symex(inline_depth=2, inner_diverge=True)
        for p in sx.run(nid):
            if p.diverged:
                # a setter only records the value: whether a configuration is acceptable is decided when the cache is built (a chain that
                # overwrites a too-long duration before build() is legal, and a builder that is never built never panics)
                r.violate(nid, 'setter-panics', b.name, 'builder setter %s can panic: build*() is the only place that rejects a configuration' % nid, where=ctx.where(nid),
                          expected='the setter stores the value; ensure_expirations_or_panic runs in build / build_with_hasher')
                continue
            ret = p.ret
            if isinstance(ret, tuple) and ret and ret[0] == 'overlay' and ret[1] == ('param', 1):
                # `mut self` style: self with some fields assigned in place
                changed = [(path[-1], v_) for path, v_ in ret[2]]
                n += 1
                ok = len(changed) == 1 and changed[0][0] == b.name and any(x == ('param', 2) for x in subterms(changed[0][1])) and \
                    isinstance(changed[0][1], tuple) and changed[0][1][0] == 'aggr' and changed[0][1][2] == 'Some'
                r.instance(setter=nid, changes=[(f, fmt(v)[:40]) for f, v in changed], ok=ok)
                if not ok:
                    r.violate(nid, 'setter-fields', ','.join(f for f, _ in changed), 'builder setter %s changes field(s) %s (expected exactly `%s` = Some(parameter), others preserved)'
                              % (nid, [(f, fmt(v)[:40]) for f, v in changed], b.name), where=ctx.where(nid))
                continue
            if not (isinstance(ret, tuple) and ret[0] == 'aggr'):
                r.violate(nid, 'setter-shape', b.name, 'builder setter %s does not return a rebuilt builder' % nid, where=ctx.where(nid))
                continue
            # leaf-wise difference between the returned builder and `self` (nested private structs are looked into)
            def diff(v, base, name):
                if v == base:
                    return []
                a_ = prog.adts.get(norm(str(v[1]))) if (isinstance(v, tuple) and v and v[0] == 'aggr') else None
                if a_ and a_['kind'] == 'Struct' and len(a_['variants'][0]['fields']) == len(v[3]):
                    out_ = []
                    for f_, fv in zip([x['name'] for x in a_['variants'][0]['fields']], v[3]):
                        out_ += diff(fv, ('fld', base, f_), f_)
                    return out_
                return [(name, v)]
            changed = diff(ret, ('param', 1), 'self')
            n += 1
            ok = len(changed) == 1 and changed[0][0] == b.name and any(x == ('param', 2) for x in subterms(changed[0][1])) and \
                isinstance(changed[0][1], tuple) and changed[0][1][0] == 'aggr' and changed[0][1][2] == 'Some'
            r.instance(setter=nid, changes=[(f, fmt(v)[:40]) for f, v in changed], ok=ok)
            if not ok:
                r.violate(nid, 'setter-fields', ','.join(f for f, _ in changed), 'builder setter %s changes field(s) %s (expected exactly `%s` = Some(parameter), others preserved)'
                          % (nid, [(f, fmt(v)[:40]) for f, v in changed], b.name), where=ctx.where(nid))
    r.require_floor(40 if ctx.has_sync else 20, 'configuration wires (call arguments, struct fields, getters, setters)')
    return r


def _validate_role(ctx):
    """The function that panics for durations above the limit (role: compares both config durations against
    a Duration built from a constant and diverges)."""
    from .roles import validation_role
    return validation_role(ctx)


def _state_adts(ctx):
    """The cache state structs: crate-local structs that hold max_capacity, time_to_live and time_to_idle (not the builders / Policy)."""
    out = []
    for an, a in ctx.prog.adts.items():
        if a['kind'] != 'Struct' or 'builder' in an or an.endswith('Policy'):
            continue
        names = {f['name'] for f in a['variants'][0]['fields']}
        if {'max_capacity', 'time_to_live', 'time_to_idle'} <= names:
            out.append(an)
    return sorted(out)


def _state_ctors(ctx):
    prog = ctx.prog
    adts = set(_state_adts(ctx))
    return {nid for nid, b in prog.bodies.items() if b.kind != 'closure' and any(
        s_['st'] == 'assign' and s_['rv']['rv'] == 'aggr' and s_['rv'].get('kind') == 'adt' and norm(s_['rv'].get('adt') or '') in adts for _, _, s_ in b.stmts())}


def _built_states(ctx, entry):
    """End to end: [(path, adt, {field: value term})] for the cache state a public entry point hands out, with the whole constructor chain
    (plain constructor, record, or `with_x(..)` steps on a `mut self`) stepped into."""
    key = ('built-states', entry)
    if key in ctx.cache:
        return ctx.cache[key]
    from .symex import PathLimit as _PL
    adts = _state_adts(ctx)
    out = []
    try:
        ps = [p for p in ctx.symex(inline_depth=8, loop_visits=2).run(entry) if not p.diverged]
    except _PL:
        ps = []
    for p in ps:
        if p.ret is None:
            continue
        for x in subterms(p.ret):
            if isinstance(x, tuple) and x and x[0] == 'aggr' and norm(str(x[1])) in adts:
                names = [f['name'] for f in ctx.prog.adts[norm(str(x[1]))]['variants'][0]['fields']]
                if len(names) == len(x[3]):
                    out.append((p, norm(str(x[1])), dict(zip(names, x[3]))))
                break
    ctx.cache[key] = out
    return out


def rule_build_validate(ctx):
    r = RuleResult('MUST-build-validate', 'every function that hands the builder\'s durations to a cache constructor has, on every path that reaches the constructor, established for '
                   'time_to_live and for time_to_idle: it is None, or `d <= Duration::from_secs(1000 * 365 * 24 * 3600)` holds for the Duration itself (inclusive limit); the '
                   'paths on which that comparison is false panic; every public build* goes through such a function')
    from .symex import PathLimit
    prog = ctx.prog
    builds = [n for n in prog.bodies if n.startswith(('sync::builder::CacheBuilder::build', 'unsync::builder::CacheBuilder::build')) and prog.bodies[n].kind != 'closure']
    # the constructor(s) the builders hand the durations to: by name today, else whatever builds the cache state
    ctor = {n for n in prog.bodies if n.endswith('Cache::with_everything')} | _state_ctors(ctx)
    direct = sorted(n for n in prog.bodies if (prog.callees(n) & ctor) and n.startswith(('sync::builder::', 'unsync::builder::')) and prog.bodies[n].kind != 'closure')
    if not direct or not ctor:
        raise CheckFailure('MUST-build-validate: no builder function constructing a cache found')

    def is_limit(t):
        return isinstance(t, tuple) and t and t[0] == 'call' and str(t[1]).endswith('Duration::from_secs') and t[2] and t[2][0] == ('c', THOUSAND_YEARS)
    for nid in direct:
        try:
            paths = ctx.symex(inline_depth=4, loop_visits=2, inner_diverge=True, inline_pred=lambda n_, bb, d: False if n_ in ctor else None).run(nid)
        except PathLimit:
            raise CheckFailure('MUST-build-validate: path limit in %s' % nid)
        seen = {'time_to_live': [False, False], 'time_to_idle': [False, False]}     # [accepting path with the test true, panicking path with the test false]
        npaths = 0
        for p in paths:
            calls = [e for e in p.events if e[0] == 'call' and e[1] in ctor]
            for which in ('time_to_live', 'time_to_idle'):
                # the term that names this duration in the builder: the constructor argument of that name, else the builder's field
                terms = []
                for e in calls:
                    cb = prog.bodies[e[1]]
                    for i in range(1, cb.argc + 1):
                        if ALIASES.get(cb.local_name(i), cb.local_name(i)) == which and i - 1 < len(e[2]):
                            terms.append(e[2][i - 1])
                lits = []
                for c, v in p.conds:
                    if isinstance(c, tuple) and c[0] == 'cmp' and has_field(c, (which,)):
                        lits.append((c, v))
                none_known = any(isinstance(c, tuple) and c[0] == 'discr' and v == 0 and has_field(c[1], (which,)) and not any(isinstance(x, tuple) and x and x[0] == 'call' for x in subterms(c[1]))
                                 for c, v in p.conds)
                good_true = any(c[1] == 'le' and is_limit(c[3]) and v is True and isinstance(c[2], tuple) and c[2][0] == 'payload' for c, v in lits)
                good_false = any(c[1] == 'le' and is_limit(c[3]) and v is False and isinstance(c[2], tuple) and c[2][0] == 'payload' for c, v in lits)
                odd = [fmt(c)[:70] + '==' + str(v) for c, v in lits if not (c[1] == 'le' and is_limit(c[3]) and isinstance(c[2], tuple) and c[2][0] == 'payload')]
                if calls and not p.diverged:
                    npaths += 1
                    ok = (none_known or good_true) and not odd
                    if good_true:
                        seen[which][0] = True
                    r.instance(function=nid, duration=which, reaches_constructor=True, none=none_known, limit_test_true=good_true, other_tests=odd, ok=ok)
                    if not ok:
                        r.violate(nid, 'no-validation' if not odd else 'limit-comparison', which, 'a path of %s reaches the cache constructor without having established `%s <= Duration::from_secs(%d)` '
                                  '(or that it is None)%s' % (nid, which, THOUSAND_YEARS, ('; it tested %s instead' % odd) if odd else ''), where=ctx.where(nid),
                                  path=[fmt(c)[:70] + ' == ' + str(v) for c, v in p.conds][:8], expected='assert!(d <= Duration::from_secs(1000 * 365 * 24 * 3600)) before constructing')
                if p.diverged and good_false:
                    seen[which][1] = True
                if good_false and not p.diverged and calls:
                    r.violate(nid, 'limit-comparison', which + '-accepted', 'a path of %s constructs the cache although `%s <= limit` is false on it' % (nid, which), where=ctx.where(nid))
        for which, (acc, pan) in seen.items():
            r.instance(function=nid, duration=which, accepting_path_seen=acc, panicking_path_seen=pan)
            if not (acc and pan):
                r.violate(nid, 'limit-comparison', which, 'the %s limit test of %s: accept-path seen: %s, panic-path seen: %s -- expected `d <= Duration::from_secs(%d)` on the Duration '
                          'itself, panic otherwise' % (which, nid, acc, pan, THOUSAND_YEARS), where=ctx.where(nid), expected='assert!(d <= Duration::from_secs(1000 * 365 * 24 * 3600))')
    # every public build* reaches the constructor only through such a function
    for nid in sorted(builds):
        reach = prog.reachable_from([nid])
        ok = bool(reach & set(direct)) and (nid in direct or not (prog.callees(nid) & ctor))
        r.instance(function=nid, builds_through=sorted(reach & set(direct)), ok=ok)
        if not ok:
            r.violate(nid, 'no-validation', 'build', '%s does not build the cache through a validating function' % nid, where=ctx.where(nid))
    for cname, c in ctx.prog.consts.items():
        if cname.endswith('::YEAR_SECONDS'):
            if 'val' not in c and any(k_ != cname and k_.endswith('::YEAR_SECONDS') and 'val' in c_ for k_, c_ in ctx.prog.consts.items()):
                continue        # the trait-level declaration of an associated const: its value is the per-impl entry
            ok = c.get('val') == 365 * 24 * 3600
            r.instance(constant='YEAR_SECONDS', value=c.get('val'), ok=ok)
            if not ok:
                r.violate(cname, 'const-value', 'YEAR_SECONDS', 'YEAR_SECONDS is %s' % c.get('val'))
    r.require_floor(6, 'build functions + limit comparisons')
    return r


_has_field0 = has_field


def rule_default_consts(ctx):
    r = RuleResult('DEFAULT-consts', 'no weigher => every entry weighs the constant 1; no max_capacity => the capacity predicate is constantly true '
                   'and the weight to evict is constantly 0; new(n) passes (Some(n), None, default hasher, None, None, None); the builder '
                   'default is all-None')
    prog = ctx.prog
    # weigh role: returns u32, reads a weigher, on the None path returns 1
    n = 0
    for nid, b in sorted(prog.bodies.items()):
        if b.kind == 'closure' or b.locals[0]['ty']['s'] != 'u32':
            continue
        names = [b.local_name(i) for i in range(1, b.argc + 1)]
        if not ('weigher' in names or (b.nid.endswith('::weigh'))):
            continue
        sx = ctx.symex(inline_depth=2)
        rets = set()
        none_ret = []
        for p in sx.run(nid):
            if p.diverged:
                continue
            is_none = any(isinstance(c, tuple) and c[0] == 'discr' and v == 0 for c, v in p.conds)
            if is_none:
                none_ret.append(p.ret)
        n += 1
        ok = bool(none_ret) and all(x == ('c', 1) for x in none_ret)
        r.instance(function=nid, weight_without_weigher=[fmt(x) for x in none_ret], ok=ok)
        if not ok:
            r.violate(nid, 'default-weight', 'weigher=None', 'without a weigher %s returns %s instead of the constant 1' % (nid, [fmt(x) for x in none_ret]), where=ctx.where(nid))
    # capacity predicate / weight to evict
    from .roles import named as _named
    role_fns = {_named(ctx, k_): k_ for k_ in ('unsync.has_capacity', 'unsync.weights_to_evict') + (('sync.has_capacity', 'sync.weights_to_evict') if ctx.has_sync else ())}
    for nid, b in sorted(prog.bodies.items()):
        if b.kind == 'closure' or not (nid.startswith(('unsync::cache::Cache::', 'sync::base_cache::Inner::')) or nid in role_fns):
            continue
        rt = b.locals[0]['ty']['s']
        if rt not in ('bool', 'u64'):
            continue
        cap_params = [i for i in range(1, b.argc + 1) if b.local_ty(i)['s'] == 'std::option::Option<u64>'] if nid in role_fns else []
        if not any(('read', a, 'max_capacity') in ctx.eff.direct.get(nid, ()) for a in ('unsync::cache::Cache', 'sync::base_cache::Inner')) and not cap_params:
            continue

        def has_field(t_, names, _cp=tuple(cap_params)):
            # the capacity: the max_capacity field, or (role functions that take it as an argument) their Option<u64> parameter
            return _has_field0(t_, names) or ('max_capacity' in names and any(isinstance(y, tuple) and y and y[0] == 'param' and y[1] in _cp for y in subterms(t_)))
        sx = ctx.symex(inline_depth=2)
        paths = [p for p in sx.run(nid) if not p.diverged]
        # only predicates of the form le(size + w, limit) / saturating_sub(size, limit)
        shapes = [p.ret for p in paths]
        is_cap = any(isinstance(x, tuple) and x[0] == 'cmp' and x[1] == 'le' and any(isinstance(y, tuple) and y and y[0] == 'bin' and y[1] in ('Add', 'saturating_add') for y in subterms(x[2]))
                     and has_field(x[3], ('max_capacity',)) for x in shapes)
        is_evict = any(isinstance(x, tuple) and x[0] == 'bin' and x[1] == 'saturating_sub' and has_field(x[3], ('max_capacity',)) for x in shapes)
        if not (is_cap or is_evict):
            # a mutated predicate may have lost the Option split: recognise by name-free shape "reads weighted_size and max_capacity"
            reads_ws = any(isinstance(y, tuple) and y and y[0] == 'fld' and y[2] == 'weighted_size' for x in shapes for y in subterms(x))
            if not (reads_ws and rt in ('bool', 'u64') and nid.split('::')[-1] in ('has_enough_capacity', 'weights_to_evict')):
                continue
            is_cap = rt == 'bool'
            is_evict = rt == 'u64'
        none_rets = [p.ret for p in paths if any(c == ('discr', x) and v == 0 for c, v in p.conds for x in [c[1]] if isinstance(c, tuple) and c[0] == 'discr' and has_field(c[1], ('max_capacity',)))]
        want = ('c', True) if is_cap else ('c', 0)
        n += 1
        ok = bool(none_rets) and all(x == want for x in none_rets)
        r.instance(function=nid, role='capacity predicate' if is_cap else 'weight to evict', unbounded_returns=[fmt(x)[:50] for x in none_rets], ok=ok)
        if not ok:
            r.violate(nid, 'unbounded-default', 'max_capacity=None', 'with max_capacity == None %s returns %s instead of the constant %s: an unbounded cache would '
                      'evict / reject for size' % (nid, [fmt(x)[:60] for x in none_rets] or 'no dedicated result', fmt(want)), where=ctx.where(nid))
    # new(n)
    for nid in ('unsync::cache::Cache::new', 'sync::cache::Cache::new'):
        if nid not in prog.bodies:
            continue
        # end to end: the state new(n) hands out is bounded by n and has nothing else configured, whatever the constructor chain looks like
        built = _built_states(ctx, nid)
        if built:
            for p, an, vals in built:
                n += 1
                ok = vals.get('max_capacity') == ('aggr', OPTION, 'Some', (('param', 1),)) and all(vals.get(k_) == NONE for k_ in ('time_to_live', 'time_to_idle', 'weigher')) and \
                    ('build_hasher' not in vals or has_call(vals['build_hasher'], ('default',)))
                r.instance(function=nid, built_state={k_: fmt(vals.get(k_))[:30] for k_ in ('max_capacity', 'time_to_live', 'time_to_idle', 'weigher')}, ok=ok)
                if not ok:
                    r.violate(nid, 'new-args', 'with_everything', '%s does not pass (Some(max_capacity), None, default hasher, None, None, None)' % nid, where=ctx.where(nid))
            continue
        # (small helper constructors of an argument record are stepped into; the values are matched by parameter / field NAME)
        sx = ctx.symex(inline_depth=2, inline_pred=lambda a, b, c: False if a.endswith('with_everything') else (None if len(b.blocks) <= 12 else False))
        for p in sx.run(nid):
            if p.diverged:
                continue
            calls = [e for e in p.events if e[0] == 'call' and str(e[1]).endswith('with_everything')]
            n += 1
            ok = False
            if calls:
                a = calls[0][2]
                vals = {}
                cb_ = prog.bodies.get(calls[0][1])
                for i_, av in enumerate(a):
                    ad_ = prog.adts.get(norm(str(av[1]))) if (isinstance(av, tuple) and av and av[0] == 'aggr') else None
                    if ad_ and ad_['kind'] == 'Struct' and av[1] != OPTION and len(ad_['variants'][0]['fields']) == len(av[3]):
                        for f_, fv in zip([x['name'] for x in ad_['variants'][0]['fields']], av[3]):
                            vals[f_] = fv
                    elif cb_ is not None and i_ + 1 <= cb_.argc:
                        vals[cb_.local_name(i_ + 1)] = av
                others = [k_ for k_ in vals if k_ not in ('max_capacity', 'build_hasher')]
                ok = vals.get('max_capacity') == ('aggr', OPTION, 'Some', (('param', 1),)) and 'build_hasher' in vals and has_call(vals['build_hasher'], ('default',)) and \
                    len(others) == 4 and all(vals[k_] == NONE for k_ in others)
            r.instance(function=nid, with_everything_args=[fmt(x)[:30] for x in calls[0][2]] if calls else None, ok=ok)
            if not ok:
                r.violate(nid, 'new-args', 'with_everything', '%s does not pass (Some(max_capacity), None, default hasher, None, None, None)' % nid, where=ctx.where(nid))
    for nid, b in sorted(prog.bodies.items()):
        if b.impl_trait == 'std::default::Default' and 'builder::CacheBuilder' in nid:
            sx = ctx.symex(inline_depth=1)
            for p in sx.run(nid):
                if p.diverged or not (isinstance(p.ret, tuple) and p.ret[0] == 'aggr'):
                    continue
                adt = prog.adts.get(p.ret[1])
                fn = [f['name'] for f in adt['variants'][0]['fields']]
                bad = [f for f, v in zip(fn, p.ret[3]) if f in CONFIG and v != NONE]
                n += 1
                r.instance(function=nid, non_none_defaults=bad, ok=not bad)
                if bad:
                    r.violate(nid, 'builder-default', ','.join(bad), 'the default builder presets %s' % bad, where=ctx.where(nid))
    r.require_floor(8 if ctx.has_sync else 3, 'default-value obligations')
    return r


ALLOWED_INITCAP_CALLS = ('std::option::Option::map', 'std::option::Option::unwrap_or_default', 'std::option::Option::unwrap_or',
                         'saturating_add', 'with_capacity_and_hasher', 'std::option::Option::unwrap_or_else', 'checked_add', 'wrapping_add',
                         'std::option::Option::map_or', 'std::option::Option::map_or_else', 'std::option::Option::and_then', 'std::cmp::Ord::min', 'std::cmp::min',
                         '<std::option::Option as std::ops::Try>::branch', '<std::option::Option as std::ops::FromResidual>::from_residual')


def _initcap_taint(ctx, b, seeds):
    """Locals of b holding a value computed from initial_capacity (propagated through copies, refs, casts, aggregates,
    arithmetic and the allowed std adaptors; NOT through in-crate calls, whose parameters are checked by name)."""
    prog = ctx.prog
    taint = set(seeds)
    changed = True

    def op_t(o):
        pl = op_place(o)
        if pl is None:
            return False
        if any(f[1] == 'initial_capacity' for f in place_fields(pl)):
            return True
        return pl['l'] in taint
    while changed:
        changed = False
        for l, ds in b.defs().items():
            if l in taint:
                continue
            for d in ds:
                t_ = False
                if d[0] == 'assign':
                    rv = d[3]['rv']
                    k = rv['rv']
                    if k in ('use', 'cast', 'repeat'):
                        t_ = op_t(rv['op'])
                    elif k in ('ref', 'rawptr', 'discr'):
                        t_ = op_t({'k': 'copy', 'pl': rv['pl']})
                    elif k == 'binop':
                        t_ = op_t(rv['a']) or op_t(rv['b'])
                    elif k == 'unop':
                        t_ = op_t(rv['a'])
                    elif k == 'aggr':
                        names = None
                        if rv.get('kind') == 'adt':
                            adt = prog.adts.get(norm(rv.get('adt') or ''))
                            if adt and adt['kind'] == 'Struct':
                                names = [f['name'] for f in adt['variants'][0]['fields']]
                        # a struct field that is itself called initial_capacity carries the value by name (reads of it are seeds): the
                        # struct as a whole is not "a value computed from initial_capacity"
                        t_ = any(op_t(o) and not (names and i < len(names) and ALIASES.get(names[i], names[i]) == 'initial_capacity')
                                 for i, o in enumerate(rv['ops']))
                else:
                    t = d[3]
                    targets, ext, passed = prog.call_targets(b, t)
                    if ext and any(str(ext).endswith(x) for x in ALLOWED_INITCAP_CALLS):
                        t_ = any(op_t(a) for a in t['args'])
                    elif targets and any(op_t(a) for a in t['args']) and all(
                            prog.bodies[tg].kind != 'closure' and prog.bodies[tg].locals[0]['ty']['s'] in ('usize', 'std::option::Option<usize>') for tg in targets):
                        # a small in-crate helper that computes a capacity from it (its body is judged through the seeded parameter)
                        t_ = True
                if t_:
                    taint.add(l); changed = True
                    break
    return taint, op_t


def _is_value_match(ctx, b, bi, t):
    """The switch tests only whether an Option is Some, both arms re-join at one block, and in between there is nothing but
    moves, arithmetic and the allowed adaptor calls (no other call, no return, no write through a reference)."""
    dl = op_local(t['discr'])
    if dl is None:
        return False
    ds = b.defs().get(dl, [])
    if not (len(ds) == 1 and ds[0][0] == 'assign' and ds[0][3]['rv']['rv'] == 'discr'):
        return False
    src = ds[0][3]['rv']['pl']
    # (`opt?` tests the ControlFlow that Try::branch made of the Option: the same Some / None selection)
    if not b.local_ty(src['l'])['s'].startswith(('std::option::Option<', 'std::ops::ControlFlow<std::option::Option<')) and not any(isinstance(e, dict) for e in src.get('p', [])):
        return False
    pdom, _nodes = b.postdominators()
    succ, _pred, _seen = b.cfg()
    arms = [a[1] for a in t['arms']] + [t['otherwise']]
    # the join: a block post-dominating every arm target
    cands = None
    for a in arms:
        if b.blocks[a]['term']['t'] == 'unreachable':
            continue
        pd = set(pdom.get(a, set())) | {a}
        cands = pd if cands is None else (cands & pd)
    if not cands:
        return False
    region, work = set(), [a for a in arms if b.blocks[a]['term']['t'] != 'unreachable']
    while work:
        x = work.pop()
        if x in region or x in cands:
            continue
        region.add(x)
        work.extend(succ.get(x, []))
    if len(region) > 12:
        return False
    for x in region:
        tt = b.blocks[x]['term']
        if tt['t'] in ('return', 'switch'):
            return False
        if tt['t'] == 'call':
            _tg, ext, _ps = ctx.prog.call_targets(b, tt)
            if not (ext and any(str(ext).endswith(y) for y in ALLOWED_INITCAP_CALLS)):
                return False
        for s_ in b.blocks[x]['stmts']:
            if s_['st'] == 'assign' and any(e == '*' for e in s_['pl'].get('p', [])):
                return False
    return True


def rule_initcap_sink(ctx):
    r = RuleResult('FLOW-initcap-sink', 'initial_capacity flows only (through Option adaptors and + WRITE_LOG_SIZE) into the map constructor '
                   'with_capacity_and_hasher; no branch and no other call depends on it: it has no observable effect')
    prog = ctx.prog
    n = 0
    # closures called by Option::map on a tainted receiver get their argument tainted
    closure_seeds = {}
    sinks = set()
    work = sorted(prog.bodies)
    LAST = 3
    for rnd in range(LAST + 1):
        for nid in work:
            b = prog.bodies[nid]
            seeds = {i for i in range(1, b.argc + 1) if ALIASES.get(b.local_name(i), b.local_name(i)) == 'initial_capacity'}
            seeds |= closure_seeds.get(nid, set())
            taint, op_t = _initcap_taint(ctx, b, seeds)
            has_field_read = any(('read', a, 'initial_capacity') in ctx.eff.direct.get(nid, ()) for a in prog.adts)
            if not taint and not has_field_read:
                continue
            for bi, t in b.all_terms():
                if t['t'] == 'switch' and op_t(t['discr']) and _is_value_match(ctx, b, bi, t):
                    # `match initial_capacity { Some(c) => f(c), None => k }`: the same value selection as map(..).unwrap_or(..) -- the arms only
                    # compute the capacity and re-join; nothing else depends on the test
                    if rnd == LAST:
                        n += 1
                        r.instance(function=nid, kind='option-match computing the capacity', line=t.get('line'), ok=True)
                    continue
                if t['t'] == 'switch' and op_t(t['discr']):
                    if rnd == LAST:
                        n += 1
                        r.instance(function=nid, kind='branch', line=t.get('line'))
                        r.violate(nid, 'branch-on-initial-capacity', 'switch', 'control flow in %s depends on initial_capacity: it would have an observable effect' % nid,
                                  where=ctx.where(nid, t.get('line')), expected='initial_capacity only sizes the map allocation')
                if t['t'] != 'call':
                    continue
                targets, ext, passed = prog.call_targets(b, t)
                tainted_args = [i for i, a in enumerate(t['args']) if op_t(a)]
                if not tainted_args:
                    continue
                if ext and str(ext).endswith(('Option::map', 'Option::and_then', 'Option::unwrap_or_else', 'Option::map_or', 'Option::map_or_else')):
                    for c in passed:
                        closure_seeds.setdefault(c, set()).add(2)
                # an in-crate helper that receives the value under another parameter name (a nested `fn headroom(cap)`, a generic
                # `set(self, step)` taking the closure that captured it) is followed: its parameter is tainted and its own body is judged
                for i in tainted_args:
                    for tg in targets:
                        tb_ = prog.bodies[tg]
                        if tb_.kind != 'closure' and i + 1 <= tb_.argc and ALIASES.get(tb_.local_name(i + 1), tb_.local_name(i + 1)) not in ('initial_capacity', 'self'):
                            closure_seeds.setdefault(tg, set()).add(i + 1)
                if rnd < LAST:
                    continue
                for i in tainted_args:
                    n += 1
                    if targets:
                        okc = all(prog.bodies[tg].kind != 'closure' and i + 1 <= prog.bodies[tg].argc and
                                  (ALIASES.get(prog.bodies[tg].local_name(i + 1), prog.bodies[tg].local_name(i + 1)) in ('initial_capacity', 'self') or
                                   (i + 1) in closure_seeds.get(tg, ())) for tg in targets)
                        callee = targets[0]
                    else:
                        okc = any(str(ext).endswith(x) for x in ALLOWED_INITCAP_CALLS)
                        # invoking the closure that captured the value (the closure body is judged where it is written)
                        if not okc and i == 0 and str(ext) in ('std::ops::FnOnce::call_once', 'std::ops::FnMut::call_mut', 'std::ops::Fn::call'):
                            okc = True
                        callee = ext
                        if str(ext).endswith('with_capacity_and_hasher'):
                            sinks.add(nid.split('::')[0])
                    r.instance(function=nid, kind='call', callee=callee, ok=okc)
                    if not okc:
                        r.violate(nid, 'initial-capacity-sink', str(callee).split('::')[-1], 'a value computed from initial_capacity is passed to %s in %s' % (callee, nid),
                                  where=ctx.where(nid, t.get('line')), expected='only Option adaptors, + WRITE_LOG_SIZE, with_capacity_and_hasher')
    # anchor: the tracked value is really the one that sizes the map of each cache kind (the number of hops in between is free)
    want_sinks = {'unsync', 'sync'} if ctx.has_sync else {'unsync'}
    if not r.violations and not want_sinks <= sinks:
        raise CheckFailure('FLOW-initcap-sink: the value tracked as initial_capacity does not reach the map constructor of %s -- the rule would pass vacuously (anchor moved?)' % sorted(want_sinks - sinks))
    r.require_floor(3 if ctx.has_sync else 2, 'uses of initial_capacity')
    return r


def _built_verbatim(ctx, kind, field):
    """On every path of every public build* of that cache kind the state handed out holds the builder's own knob of that name."""
    prog = ctx.prog
    ents = [n for n in prog.bodies if n.startswith(kind + '::builder::CacheBuilder::build') and prog.bodies[n].kind != 'closure']
    seen = 0
    for ent in ents:
        for p, an, vals in _built_states(ctx, ent):
            if not an.startswith(kind + '::'):
                continue
            seen += 1
            x, chain = vals.get(field), []
            while isinstance(x, tuple) and x and x[0] == 'fld':
                chain.append(x[2]); x = x[1]
            if not (x == ('param', 1) and chain and ALIASES.get(chain[0], chain[0]) == field):
                return False
    return seen > 0


def rule_store_config(ctx, WANT=('max_capacity', 'time_to_live', 'time_to_idle'), label='MUST-store-config'):
    r = RuleResult(label, 'the constructors store %s exactly as given: on every path the field of the '
                   'constructed cache state holds the parameter (or the field of a parameter struct) of the same name, unconditionally -- policy(), the '
                   'expiry / capacity predicates and the weight bookkeeping read these fields' % ', '.join(WANT))
    from .symex import subterms, fmt, PathLimit
    prog = ctx.prog
    targets = [('unsync::cache::Cache', 'unsync')]
    if ctx.has_sync:
        targets.append(('sync::base_cache::Inner', 'sync'))
    n = 0
    for adt_name, kind in targets:
        adt = prog.adts.get(adt_name)
        if not adt:
            raise CheckFailure('MUST-store-config: state struct %s not found' % adt_name)
        names = [f['name'] for f in adt['variants'][0]['fields']]
        ctors = sorted(nid for nid, b in prog.bodies.items() if b.kind != 'closure' and any(
            s_['st'] == 'assign' and s_['rv']['rv'] == 'aggr' and s_['rv'].get('kind') == 'adt' and norm(s_['rv'].get('adt') or '') == adt_name for _, _, s_ in b.stmts()))
        if not ctors:
            raise CheckFailure('MUST-store-config: no constructor of %s found' % adt_name)
        for nid in ctors:
            b = prog.bodies[nid]
            pname = {i: ALIASES.get(b.local_name(i), b.local_name(i)) for i in range(1, b.argc + 1)}
            try:
                paths = [p for p in ctx.symex(inline_depth=2, loop_visits=2).run(nid) if not p.diverged]
            except PathLimit:
                raise CheckFailure('MUST-store-config: path limit in %s' % nid)
            for p in paths:
                aggs = [x for x in subterms(p.ret) if isinstance(x, tuple) and x and x[0] == 'aggr' and norm(str(x[1])) == adt_name] if p.ret is not None else []
                for ag in aggs[:1]:
                    for f in WANT:
                        if f not in names or names.index(f) >= len(ag[3]):
                            continue
                        v = ag[3][names.index(f)]
                        # verbatim: a parameter, or a pure projection (field / tuple position) of a parameter -- nothing computed, nothing conditional;
                        # where the wire carries a name it must be the field's own (positions of a tuple carry none: FLOW-config-names follows those)
                        x, chain = v, []
                        while isinstance(x, tuple) and x and x[0] == 'fld':
                            chain.append(x[2]); x = x[1]
                        is_proj = isinstance(x, tuple) and x and x[0] == 'param'
                        named_ = [c for c in chain if isinstance(c, str) and not c.isdigit()] + ([pname.get(x[1])] if is_proj and not chain else [])
                        ok = is_proj and all(ALIASES.get(c, c) == f or c not in WANT for c in named_) and (not named_ or not chain or named_[0] == f or named_[0] not in WANT)
                        n += 1
                        if not ok and v in (NONE, ('c', 0)) and not any(pname.get(i_) == f for i_ in pname) and _built_verbatim(ctx, kind, f):
                            # the constructor only creates the slot (no parameter of that name); a later `with_x(..)` step of the chain fills it:
                            # judged end to end on what build() hands out
                            ok = True
                            r.instance(constructor=nid, field=f, stored='set by a later step of the constructor chain', end_to_end=True, ok=True)
                            continue
                        r.instance(constructor=nid, field=f, stored=fmt(v)[:60], ok=ok)
                        if not ok:
                            r.violate(nid, 'config-not-stored-verbatim', f, '%s stores `%s` into %s.%s on a path (conditions: %s): the cache no longer holds / reports exactly the '
                                      'configured %s' % (nid, fmt(v)[:60], adt_name.split('::')[-1], f, [fmt(c)[:40] + '==' + str(v_) for c, v_ in p.conds][:4], f),
                                      where=ctx.where(nid), expected='%s: %s  (the parameter itself)' % (f, f))
    # ... and on the way there: every in-crate call that hands a value to a parameter named max_capacity / time_to_live / time_to_idle passes
    # it on verbatim (a parameter or field projection, `Some(param)` for the plain constructors, or the literal None) -- nothing filtered or derived
    def verbatim(v):
        if v == ('aggr', 'std::option::Option', 'None', ()):
            return True
        if isinstance(v, tuple) and v and v[0] == 'aggr' and v[1] == 'std::option::Option' and v[2] == 'Some' and len(v[3]) == 1:
            v = v[3][0]
        x = v
        while isinstance(x, tuple) and x and x[0] == 'fld':
            x = x[1]
        return isinstance(x, tuple) and x and x[0] == 'param'
    all_ctors = set()
    for adt_name, kind in targets:
        all_ctors |= {nid for nid, b in prog.bodies.items() if b.kind != 'closure' and any(
            s_['st'] == 'assign' and s_['rv']['rv'] == 'aggr' and s_['rv'].get('kind') == 'adt' and norm(s_['rv'].get('adt') or '') == adt_name for _, _, s_ in b.stmts())}
    chain = sorted(n_ for n_, b_ in prog.bodies.items() if b_.kind != 'closure' and n_ not in all_ctors and (prog.reachable_from([n_]) & all_ctors)
                   and n_.startswith(('sync::', 'unsync::')) and not any(x in n_ for x in ('::tests::', 'test_')))
    for F in chain:
        bF = prog.bodies[F]
        try:
            # (small read-only accessors of the builder / argument records are stepped into: `self.expirations().0` is a projection)
            def _acc(n_, bb, d, _chain=frozenset(chain) | all_ctors):
                return bool(n_ not in _chain and bb.kind != 'closure' and not bb.loops() and len(bb.blocks) <= 6 and
                            not any(e_[0] == 'write' for e_ in ctx.eff.transitive(n_)) and not any(e_[0] == 'call' for e_ in ctx.eff.direct.get(n_, ())))
            pathsF = [p for p in ctx.symex(inline_depth=2, loop_visits=2, inline_pred=_acc).run(F) if not p.diverged]
        except PathLimit:
            continue
        seen_sites = set()
        for p in pathsF:
            for e in p.events:
                if e[0] != 'call' or e[1] not in prog.bodies or prog.bodies[e[1]].kind == 'closure':
                    continue
                cb = prog.bodies[e[1]]
                for i in range(1, cb.argc + 1):
                    pn = ALIASES.get(cb.local_name(i), cb.local_name(i))
                    if pn in WANT and i - 1 < len(e[2]):
                        ok = verbatim(e[2][i - 1])
                        if (e[1], e[3], pn, ok) in seen_sites:
                            continue
                        seen_sites.add((e[1], e[3], pn, ok))
                        n += 1
                        r.instance(caller=F, callee=e[1], parameter=pn, argument=fmt(e[2][i - 1])[:60], verbatim=ok)
                        if not ok:
                            r.violate(F, 'config-not-passed-verbatim', pn, '%s passes `%s` as %s to %s: the configured value is filtered / derived on its way into the cache, so the cache no '
                                      'longer holds (and policy() no longer reports) exactly what it was built with' % (F, fmt(e[2][i - 1])[:60], pn, e[1]), where=ctx.where(F, e[3]),
                                      expected='%s passed on unchanged' % pn)
    r.require_floor((2 if ctx.has_sync else 1) * len(WANT), 'stored configuration fields')
    return r


def rule_store_weigher(ctx):
    # the weigher the user configured is the one the cache weighs with, in every configuration (also without a capacity bound)
    return rule_store_config(ctx, WANT=('weigher',), label='MUST-store-config(weigher)')


def rule_store_ttl(ctx):
    return rule_store_config(ctx, WANT=('time_to_live',), label='MUST-store-config(time_to_live)')


def rule_store_tti(ctx):
    return rule_store_config(ctx, WANT=('time_to_idle',), label='MUST-store-config(time_to_idle)')


def rule_store_capacity(ctx):
    return rule_store_config(ctx, WANT=('max_capacity',), label='MUST-store-config(max_capacity)')


def rule_weigh_exact(ctx):
    r = RuleResult('MUST-weigh', 'the weight of an entry is the configured weigher applied to exactly its key and value whenever a weigher is configured -- unconditionally '
                   '(also without a capacity bound) and unmodified (no clamp, no cast) -- and the constant 1 otherwise; the decision depends on nothing but the '
                   'presence of the weigher')
    prog = ctx.prog
    n = 0
    for nid, b in sorted(prog.bodies.items()):
        if b.kind == 'closure' or b.locals[0]['ty']['s'] != 'u32' or not nid.startswith(('sync::', 'unsync::')):
            continue
        names = [b.local_name(i) for i in range(1, b.argc + 1)]
        reads_weigher = any(e[0] == 'read' and e[2] == 'weigher' for x in [nid] + prog.closures_of.get(nid, []) for e in ctx.eff.direct.get(x, ()))
        if not ('weigher' in names or nid.endswith('::weigh') or reads_weigher):
            continue
        for p in ctx.symex(inline_depth=2).run(nid):
            if p.diverged:
                continue
            n += 1
            wtag = [(c, v) for c, v in p.conds if isinstance(c, tuple) and c[0] == 'discr' and ('weigher' in fmt(c) or (isinstance(c[1], tuple) and c[1][0] == 'param' and
                                                                                                                   b.local_name(c[1][1]) == 'weigher'))]
            other = [(c, v) for c, v in p.conds if (c, v) not in wtag]
            has = wtag[-1][1] == 1 if wtag else None
            ret = p.ret
            if has:
                W = ('payload', wtag[-1][0][1], 'Some', 0)
                args_ok = isinstance(ret, tuple) and ret and ret[0] == 'call' and (ret[1] == 'callback' or str(ret[1]).endswith(('call_mut', 'call', 'call_once'))) and ret[2] and ret[2][0] == W
                flat = []
                if args_ok:
                    for a in ret[2][1:]:
                        flat += list(a[1]) if (isinstance(a, tuple) and a and a[0] == 'tuple') else [a]
                    args_ok = len(flat) == 2 and all(isinstance(a, tuple) and a and a[0] == 'param' for a in flat) and flat[0] != flat[1]
                ok = args_ok and not other
            elif has is False:
                ok = ret == ('c', 1) and not other
            else:
                ok = False
            r.instance(function=nid, weigher_configured=has, returns=fmt(ret)[:70], other_conditions=[fmt(c)[:40] for c, v in other], ok=ok)
            if not ok:
                r.violate(nid, 'weight-not-the-weigher', 'weigher=%s' % has, '%s returns `%s` when a weigher %s (other conditions on the path: %s): weighted_size / the capacity '
                          'accounting no longer sums the user\'s weigher over the entries' % (nid, fmt(ret)[:60], 'is configured' if has else ('is absent' if has is False else 'may or may not be configured'),
                                                                                             [fmt(c)[:40] + '==' + str(v) for c, v in other][:3]), where=ctx.where(nid),
                          expected='weigher.map(|w| w(key, value)).unwrap_or(1)')
    r.require_floor(4 if ctx.has_sync else 1, 'paths of the weigh role(s)')
    return r
