"""C08 rules: complete inventories (arithmetic asserts, panic-capable calls, unsafe sites) discharged
automatically or by one reasoned table line; unsafe-impl bounds; raw-pointer discipline for deque nodes
(PTR-guarded-call, AUTH-node-free, AUTH-box-raw, AUTH-forget); local shape invariants of the intrusive list."""
import json, os
from collections import Counter, defaultdict

from .core import RuleResult, CheckFailure, VERIF
from .kernel import norm, op_local, op_place, place_fields
from .roles import get_roles, DEQUE, wrapper_kind
from .symex import fmt, subterms, PathLimit, NONE

TABLES = os.path.join(os.path.dirname(os.path.abspath(__file__)), 'tables')


def load_table(name):
    with open(os.path.join(TABLES, name)) as f:
        return json.load(f)


INT_BITS = {'u8': 8, 'u16': 16, 'u32': 32, 'u64': 64, 'u128': 128, 'usize': 64, 'i8': 8, 'i16': 16, 'i32': 32, 'i64': 64, 'i128': 128, 'isize': 64}


def operand_shape(ctx, b, o, depth=0):
    """Stable description of an operand for table keys (never a line number)."""
    if o.get('k') == 'const':
        if 'item' in o:
            return 'const:' + norm(o['item']).split('::')[-1]
        return 'const:%s' % o.get('val', o.get('text'))
    pl = o['pl']
    fs = place_fields(pl)
    if fs:
        return 'field:%s.%s' % (fs[-1][0].split('::')[-1], fs[-1][1])
    l = pl['l']
    if any(isinstance(e, dict) and 'index' in e for e in pl.get('p', [])):
        return 'elem'
    name = b.local_name(l)
    if 1 <= l <= b.argc:
        return 'param:%s' % name
    if name:
        return 'var:%s' % name
    if depth > 4:
        return 'expr'
    ds = b.defs().get(l, [])
    if len(ds) == 1:
        d = ds[0]
        if d[0] == 'assign' and not d[3]['pl'].get('p'):
            rv = d[3]['rv']
            if rv['rv'] in ('use', 'cast'):
                s = operand_shape(ctx, b, rv['op'], depth + 1)
                return s if rv['rv'] == 'use' else 'cast(%s)' % s
            if rv['rv'] == 'binop':
                return '%s(%s,%s)' % (rv['op'].replace('WithOverflow', ''), operand_shape(ctx, b, rv['a'], depth + 1), operand_shape(ctx, b, rv['b'], depth + 1))
            if rv['rv'] == 'unop' and rv['op'] == 'PtrMetadata':
                return 'len'
        if d[0] == 'call':
            t = d[3]
            tg, ext, _ = ctx.prog.call_targets(b, t)
            return 'call:%s' % '::'.join((ext or (tg[0] if tg else '?')).split('::')[-2:])
    # overflow tuple temp: tmp.0
    for e in pl.get('p', []):
        pass
    return 'expr'


def operand_kind(ctx, b, o, depth=0, fields=True):
    """Rename/move-robust description of an operand: a constant, a state field, or just its integer type
    (through casts: `cast(u32)` = widened from u32).  fields=False: the type-level form (a field is described by its type)."""
    if o.get('k') == 'const':
        if 'item' in o:
            return 'const:' + norm(o['item']).split('::')[-1]
        return 'const:%s' % o.get('val', o.get('text'))
    pl = o['pl']
    fs = [f for f in place_fields(pl) if f[1] and not str(f[1]).isdigit()]
    if fs and fields:
        return 'field:%s' % fs[-1][1]
    l = pl['l']
    ty = o.get('pty') or b.local_ty(l)['s']
    if any(isinstance(e, dict) and ('index' in e or 'cindex' in e) for e in pl.get('p', [])):
        return 'elem'
    if depth < 4 and not (1 <= l <= b.argc) and not pl.get('p'):
        ds = b.defs().get(l, [])
        if len(ds) == 1 and ds[0][0] == 'assign' and not ds[0][3]['pl'].get('p'):
            rv = ds[0][3]['rv']
            if rv['rv'] == 'cast' and op_local(rv['op']) is not None:
                src = (rv['op'].get('pty') or b.local_ty(op_local(rv['op']))['s'])
                # only widening casts matter (a narrow value accumulated into a wider type)
                if INT_BITS.get(src, 0) and INT_BITS.get(ty, 0) and INT_BITS[src] < INT_BITS[ty]:
                    return 'cast(%s)' % src
                return ty
            if rv['rv'] == 'use' and op_place(rv['op']) is not None:
                return operand_kind(ctx, b, rv['op'], depth + 1, fields)
            if rv['rv'] == 'unop' and rv['op'] == 'PtrMetadata':
                return 'len'
        # `u64::from(x)` / `x.into()` of a narrower unsigned integer is the lossless spelling of the widening `as` cast
        if len(ds) == 1 and ds[0][0] == 'call' and not ds[0][3]['dest'].get('p'):
            t_ = ds[0][3]
            cal = norm(str(t_.get('callee') or ''))
            if cal in ('std::convert::From::from', 'std::convert::Into::into') and len(t_.get('args') or ()) == 1:
                a_ = t_['args'][0]
                src = a_.get('pty') or (b.local_ty(op_local(a_))['s'] if op_local(a_) is not None else None)
                if INT_BITS.get(src, 0) and INT_BITS.get(ty, 0) and INT_BITS[src] < INT_BITS[ty] and str(src).startswith('u') and str(ty).startswith('u'):
                    return 'cast(%s)' % src
    return ty



# ------------------------------------------------------------------------------------------------ value ranges

U64MAX = (1 << 64) - 1
TYPE_MAX = {'u8': 255, 'u16': 65535, 'u32': (1 << 32) - 1, 'u64': U64MAX, 'usize': U64MAX, 'u128': (1 << 128) - 1}


_ENV = {}
_FIELD_RANGE = None


def env_of_conds(conds):
    """term -> (lo | None, hi | None) from the comparisons with constants a path has established."""
    env = {}

    def upd(x, lo=None, hi=None):
        if not isinstance(x, tuple):
            return
        while x and x[0] == 'cast' and isinstance(x[1], tuple):
            keys = [x]
            x = x[1]
            keys.append(x)
        cur = env.get(x, (None, None))
        nlo = lo if cur[0] is None else (cur[0] if lo is None else max(cur[0], lo))
        nhi = hi if cur[1] is None else (cur[1] if hi is None else min(cur[1], hi))
        env[x] = (nlo, nhi)
    for c, v in conds:
        if not (isinstance(c, tuple) and c and c[0] == 'cmp' and isinstance(v, bool)):
            continue
        op, a, b = c[1], c[2], c[3]
        ca = a[1] if (isinstance(a, tuple) and a and a[0] == 'c' and isinstance(a[1], int) and not isinstance(a[1], bool)) else None
        cb = b[1] if (isinstance(b, tuple) and b and b[0] == 'c' and isinstance(b[1], int) and not isinstance(b[1], bool)) else None
        if op == 'le':
            if ca is not None and cb is None:      # ca <= b
                upd(b, lo=ca) if v else upd(b, hi=ca - 1)
            elif cb is not None and ca is None:    # a <= cb
                upd(a, hi=cb) if v else upd(a, lo=cb + 1)
        elif op == 'lt':
            if ca is not None and cb is None:      # ca < b
                upd(b, lo=ca + 1) if v else upd(b, hi=ca)
            elif cb is not None and ca is None:    # a < cb
                upd(a, hi=cb - 1) if v else upd(a, lo=cb)
        elif op == 'eq' and v:
            if ca is not None and cb is None:
                upd(b, lo=ca, hi=ca)
            elif cb is not None and ca is None:
                upd(a, lo=cb, hi=cb)
    return {k_: v_ for k_, v_ in env.items() if (v_[1] is None or v_[1] >= 0)}


def interval(t, depth=0):
    """Interval of an unsigned integer term of the abstract interpreter, or None (unknown).  Sound for the operators below; a
    loop variable drawn from a literal range `a..b` lies in [a, b-1]."""
    if not isinstance(t, tuple) or not t or depth > 24:
        return None
    if (_ENV or _FIELD_RANGE is not None) and depth < 24:
        # bounds established by the conditions of the path (and by construction-time invariants of struct fields) refine the structural range
        b_ = _ENV.get(t)
        if b_ is None and _FIELD_RANGE is not None:
            if t[0] == 'fld':
                b_ = _FIELD_RANGE(t)
            elif t[0] == 'havoc' and isinstance(t[1], tuple) and t[1] and t[1][0] == 'fld':
                b_ = _FIELD_RANGE(t[1])      # the field of a loop-carried struct: its construction-time invariant still holds
        if b_ is not None:
            saved = _ENV.pop(t, None)
            try:
                iv_ = interval(t, depth + 1)
            finally:
                if saved is not None:
                    _ENV[t] = saved
            lo_ = b_[0] if b_[0] is not None else 0
            if iv_ is None:
                return (lo_, b_[1]) if b_[1] is not None else None
            hi_ = iv_[1] if b_[1] is None else min(iv_[1], b_[1])
            return (max(iv_[0], lo_), hi_)
    k = t[0]
    if k == 'c':
        return (t[1], t[1]) if isinstance(t[1], int) and not isinstance(t[1], bool) and t[1] >= 0 else None
    if k == 'cast':
        iv = interval(t[1], depth + 1)
        mx = TYPE_MAX.get(t[2] if len(t) > 2 else None)
        if iv is not None and (mx is None or iv[1] <= mx):
            return iv
        return (0, mx) if mx is not None else None
    if k == 'payload' and t[2] == 'Some' and isinstance(t[1], tuple) and t[1] and t[1][0] == 'call' and str(t[1][1]).endswith('::next'):
        rg = t[1][2][0] if t[1][2] else None
        if isinstance(rg, tuple) and rg and rg[0] == 'aggr' and str(rg[1]).endswith('ops::Range') and len(rg[3]) == 2:
            lo, hi = interval(rg[3][0], depth + 1), interval(rg[3][1], depth + 1)
            if lo is not None and hi is not None and hi[1] >= 1:
                return (lo[0], hi[1] - 1)
        return None
    if k == 'bin':
        op = t[1]
        a, b = interval(t[2], depth + 1), interval(t[3], depth + 1)
        if op == 'BitAnd':
            his = [x[1] for x in (a, b) if x is not None]
            return (0, min(his)) if his else None
        if op in ('Rem',) and b is not None and b[0] >= 1:
            return (0, b[1] - 1)
        if op in ('min',):
            his = [x[1] for x in (a, b) if x is not None]
            return (0, min(his)) if his else None
        if a is None or b is None:
            if op in ('Shr', 'Div', 'saturating_sub', 'Sub') and a is not None:
                return (0, a[1])
            return None
        if op in ('Add', 'AddUnchecked', 'saturating_add', 'wrapping_add'):
            return (a[0] + b[0], a[1] + b[1])
        if op in ('Sub', 'saturating_sub'):
            return (max(a[0] - b[1], 0), a[1])
        if op in ('Mul', 'saturating_mul'):
            return (a[0] * b[0], a[1] * b[1])
        if op == 'Shl' and b[1] < 128:
            return (a[0] << b[0], a[1] << b[1])
        if op == 'Shr' and b[1] < 128:
            return (a[0] >> b[1], a[1] >> b[0])
        if op in ('BitOr', 'BitXor'):
            n = max(a[1], b[1]).bit_length()
            return (0, (1 << n) - 1)
        if op == 'Div' and b[0] >= 1:
            return (a[0] // b[1], a[1] // b[0])
        if op == 'max':
            return (max(a[0], b[0]), max(a[1], b[1]))
    return None


def _assert_holds(kind, ops, bits):
    """The assert cannot fire for any values in the operands' intervals."""
    ivs = [interval(o) for o in ops]
    mx = (1 << bits) - 1 if bits else None
    if kind in ('Overflow(Shl)', 'Overflow(Shr)') and len(ops) == 2:
        return ivs[1] is not None and bits is not None and ivs[1][1] < bits
    if kind == 'Overflow(Add)' and len(ops) == 2:
        return None not in ivs and mx is not None and ivs[0][1] + ivs[1][1] <= mx
    if kind == 'Overflow(Mul)' and len(ops) == 2:
        return None not in ivs and mx is not None and ivs[0][1] * ivs[1][1] <= mx
    if kind == 'Overflow(Sub)' and len(ops) == 2:
        return None not in ivs and ivs[0][0] >= ivs[1][1]
    if kind == 'BoundsCheck' and len(ops) == 2:
        return None not in ivs and ivs[1][1] < ivs[0][0]
    if kind in ('DivisionByZero', 'RemainderByZero') and ops:
        return ivs[0] is not None and ivs[0][0] >= 1
    return False


class RangeProver:
    """Discharges an arithmetic assert by interval evaluation of its operand terms on every path that reaches it: in the function itself,
    else (private function) in every caller with the function inlined."""

    def __init__(self, ctx):
        self.ctx = ctx
        self.cache = {}
        self.pub = set(ctx.prog.public_api())

    def _events(self, root, force=()):
        key = (root, tuple(sorted(force)))
        if key not in self.cache:
            ev = defaultdict(list)
            modpre = root.lstrip('<').split('::')[0:2]

            def pol(n_, bb, d):
                if n_ in force:
                    return True
                # small helpers of the same module are part of the computation
                return True if (d < 3 and not bb.loops() and len(bb.blocks) <= 40 and n_.lstrip('<').split('::')[0:2] == modpre) else None
            try:
                sx = self.ctx.symex(inline_depth=4, loop_visits=2, inline_pred=pol, havoc_loops=True, max_paths=1500)
                for p in sx.run(root):
                    env_ = None
                    for e in p.events:
                        if e[0] == 'assert':
                            if env_ is None:
                                env_ = env_of_conds(p.conds)
                            ev[(e[4], e[5])].append((e, env_))
            except PathLimit:
                ev = None
            self.cache[key] = ev
        return self.cache[key]

    def proved(self, nid, bi, kind, bits):
        return self._prove((nid, bi), kind, bits, nid, (), 0)

    def _holds(self, kind, ops, bits, env):
        global _ENV, _FIELD_RANGE
        _ENV, _FIELD_RANGE = dict(env or {}), self.field_range
        try:
            return _assert_holds(kind, ops, bits)
        finally:
            _ENV, _FIELD_RANGE = {}, None

    def field_range(self, t):
        """Invariant range of an integer struct field that is only ever set when the struct is constructed (never assigned afterwards):
        the union of the ranges of the constructor operands, each evaluated on the paths of the constructing function."""
        name = t[2]
        key = ('fieldrange', name)
        if key in self.cache:
            return self.cache[key]
        self.cache[key] = None       # (recursion guard)
        prog = self.ctx.prog
        owners = [(an, f_) for an, a_ in prog.adts.items() for v_ in a_['variants'] for f_ in v_['fields']
                  if f_['name'] == name and f_['ty']['s'] in TYPE_MAX and a_['kind'] == 'Struct']
        res = None
        if len(owners) == 1 and isinstance(name, str):
            an = owners[0][0]
            if not self.ctx.eff.who_has(('write', an, name)):
                ctors = sorted(nid for nid, b in prog.bodies.items() if any(
                    s_['st'] == 'assign' and s_['rv']['rv'] == 'aggr' and s_['rv'].get('kind') == 'adt' and norm(s_['rv'].get('adt') or '') == an for _, _, s_ in b.stmts()))
                lo, hi, okall = None, None, bool(ctors)
                names = [f_['name'] for f_ in prog.adts[an]['variants'][0]['fields']]
                for c in ctors:
                    try:
                        ps = self.ctx.symex(inline_depth=1, loop_visits=2, havoc_loops=True, max_paths=500).run(c)
                    except PathLimit:
                        okall = False; break
                    seen = False
                    for p in ps:
                        for x in ([y for y in subterms(p.ret) if isinstance(y, tuple)] if p.ret is not None else []):
                            if x and x[0] == 'aggr' and norm(str(x[1])) == an and len(x[3]) == len(names):
                                seen = True
                                global _ENV, _FIELD_RANGE
                                sv = (_ENV, _FIELD_RANGE)
                                _ENV, _FIELD_RANGE = env_of_conds(p.conds), None
                                try:
                                    iv = interval(x[3][names.index(name)])
                                finally:
                                    _ENV, _FIELD_RANGE = sv
                                if iv is None:
                                    okall = False
                                else:
                                    lo = iv[0] if lo is None else min(lo, iv[0])
                                    hi = iv[1] if hi is None else max(hi, iv[1])
                    if not seen:
                        okall = False
                if okall and hi is not None:
                    res = (lo, hi)
        self.cache[key] = res
        return res

    def _prove(self, site, kind, bits, root, force, depth):
        prog = self.ctx.prog
        ev = self._events(root, force=force)
        if ev is not None:
            occ = ev.get(site, [])
            if occ and all(self._holds(kind, e[2], bits, env_) for e, env_ in occ):
                return 'in %s (%d path occurrence(s))' % (root.split('::')[-1], len(occ))
        # calling contexts are consulted for small private helpers only
        if depth >= 3 or root in self.pub or len(prog.bodies[root].blocks) > 40:
            return None
        callers = set()
        for c in prog.callers().get(root, ()):
            callers.add(prog.bodies[c].root if (prog.bodies[c].kind == 'closure' and prog.bodies[c].root) else c)
        callers.discard(root)
        # value ranges of a helper's parameters are established by the helper's own module; other modules are not searched
        if not callers or len(callers) > 4 or any(c.lstrip('<').split('::')[0:2] != root.lstrip('<').split('::')[0:2] or len(prog.bodies[c].blocks) > 80 for c in callers):
            return None
        whys = []
        for c in sorted(callers):
            w = self._prove(site, kind, bits, c, tuple(sorted(set(force) | {root})), depth + 1)
            if not w:
                return None
            whys.append(w)
        return 'in every calling context: ' + '; '.join(whys)


def const_of(o):
    return o.get('val') if o.get('k') == 'const' and 'val' in o else None


def rule_inv_arith(ctx):
    r = RuleResult('INV-ARITH', 'complete inventory of overflow / division / bounds asserts in the compiled crate; each is discharged automatically '
                   '(all operands constant, constant shift below the bit width, +1 step of a wide counter) or by a reasoned table line keyed by '
                   '(assert kind, operand state-fields / integer types) -- independent of function and variable names; arithmetic of a kind that '
                   'occurs nowhere in the reviewed code is reported')
    prog = ctx.prog
    table = load_table('arith_sites.json')
    want = {e['key']: e for e in table['sites']}
    found = Counter()
    where = {}
    tkey = {}
    auto = 0
    prover = RangeProver(ctx)
    # functions nothing can call at run time: private, not a trait item, no caller in the crate, never taken as a function value -- a `const fn`
    # used only in constant initialisers (evaluated by the compiler, where an overflow is a compile error), or dead code
    callers_ = prog.callers()
    taken = set()
    for b_ in prog.bodies.values():
        for _bi, t_ in b_.all_terms():
            for o_ in (t_.get('args') or []):
                if isinstance(o_, dict) and o_.get('fn'):
                    taken.add(norm(o_['fn']))
        for _bi, _si, s_ in b_.stmts():
            rv_ = s_.get('rv') or {}
            for o_ in [rv_.get('op'), rv_.get('a'), rv_.get('b')] + list(rv_.get('ops') or []):
                if isinstance(o_, dict) and o_.get('fn'):
                    taken.add(norm(o_['fn']))

    def not_runtime(nid_):
        bb_ = prog.bodies[nid_]
        root_ = bb_.root if (bb_.kind == 'closure' and bb_.root) else nid_
        rb_ = prog.bodies[root_]
        return not rb_.is_pub and not rb_.impl_trait and not rb_.trait_item and not callers_.get(root_) and root_ not in taken
    for nid, b in sorted(prog.bodies.items()):
        for bi, t in b.all_terms():
            if t['t'] != 'assert':
                continue
            kind = t['kind']
            if kind in ('Misaligned', 'NullDeref'):
                continue
            if not_runtime(nid):
                r.instance(function=nid, kind=kind, discharged='NOT-RUNTIME (no caller, not public, not a trait item: evaluated in constants by the compiler, or dead)')
                auto += 1
                continue
            ops = t['ops']
            shapes = [operand_shape(ctx, b, o) for o in ops]
            # ---- automatic classes
            if all(const_of(o) is not None for o in ops) and ops:
                vals = [const_of(o) for o in ops]
                ok = True
                if kind.startswith('Overflow(Mul') and len(vals) == 2:
                    ok = vals[0] * vals[1] < (1 << 64)
                elif kind.startswith('Overflow(Add') and len(vals) == 2:
                    ok = vals[0] + vals[1] < (1 << 64)
                elif kind.startswith('Overflow(Sub') and len(vals) == 2:
                    ok = vals[0] >= vals[1]
                elif kind in ('DivisionByZero', 'RemainderByZero'):
                    ok = vals[0] != 0
                elif kind == 'BoundsCheck':
                    ok = vals[1] < vals[0]
                r.instance(function=nid, kind=kind, operands=shapes, discharged='CONST', holds=ok)
                auto += 1
                if not ok:
                    r.violate(nid, 'const-arith-fails', kind, 'constant arithmetic %s %s fails' % (kind, vals), where=ctx.where(nid, t.get('line')))
                continue
            if kind in ('Overflow(Shl)', 'Overflow(Shr)') and len(ops) == 2 and const_of(ops[1]) is not None:
                lt = b.local_ty(op_local(ops[0]))['s'] if op_local(ops[0]) is not None else None
                bits = INT_BITS.get(lt, 64 if const_of(ops[0]) is not None else None)
                if bits and const_of(ops[1]) < bits:
                    r.instance(function=nid, kind=kind, operands=shapes, discharged='SHIFT-CONST')
                    auto += 1
                    continue
            if kind in ('DivisionByZero', 'RemainderByZero'):
                # the assert condition is `divisor == 0`; a non-zero literal divisor discharges it
                cl = op_local(t['cond'])
                lit = None
                for d in b.defs().get(cl, []) if cl is not None else []:
                    if d[0] == 'assign' and d[3]['rv']['rv'] == 'binop' and d[3]['rv']['op'] == 'Eq':
                        for side in ('a', 'b'):
                            v = const_of(d[3]['rv'][side])
                            if v not in (None, 0):
                                lit = v
                if lit:
                    r.instance(function=nid, kind=kind, operands=shapes, discharged='CONST divisor %s' % lit)
                    auto += 1
                    continue
            kinds = [operand_kind(ctx, b, o) for o in ops]
            tkinds = [operand_kind(ctx, b, o, fields=False) for o in ops]
            # UNIT-STEP: +1 on a 32/64-bit counter cannot overflow before 2^32 / 2^64 steps (each step is one object or one loop iteration)
            if kind == 'Overflow(Add)' and len(ops) == 2 and const_of(ops[1]) == 1 and tkinds[0] in ('u64', 'usize', 'u32'):
                r.instance(function=nid, kind=kind, operands=shapes, discharged='UNIT-STEP')
                auto += 1
                continue
            # RANGE: interval evaluation of the operand terms on every path reaching the assert
            o0 = ops[0] if ops else None
            ty0 = (o0.get('pty') if o0 and o0.get('k') != 'const' else None) or (b.local_ty(op_local(o0))['s'] if o0 is not None and op_local(o0) is not None else None) or \
                ((o0.get('ty') or {}).get('s') if o0 else None)
            bits = INT_BITS.get(ty0)
            if kind == 'BoundsCheck' or bits:
                why = prover.proved(nid, bi, kind, bits)
                if why:
                    r.instance(function=nid, kind=kind, operands=shapes, discharged='RANGE', where_proved=why)
                    auto += 1
                    continue
            key = '%s|%s' % (kind, ','.join(kinds))
            found[key] += 1
            where[key] = (nid, t.get('line'))
            tkey[key] = '%s|%s' % (kind, ','.join(tkinds))
    twant = table.get('type_level', {})
    # sites per type-level form (all field-level keys of that form together): a rename / move keeps this number, a NEW unchecked operation of
    # the same integer types raises it
    tl_total = Counter()
    for key, n in found.items():
        tl_total[tkey[key]] += n
    tl_reviewed = table.get('type_level_counts', {})
    for key, n in sorted(found.items()):
        ent = want.get(key)
        if ent is None and (tkey[key] in twant or tkey[key] in want):
            # the same arithmetic on a renamed / moved field: reviewed at type level
            src_ = twant.get(tkey[key], tkey[key])
            if tl_total[tkey[key]] <= tl_reviewed.get(tkey[key], 0):
                ent = dict(want[src_])
                ent['reason'] = 'type-level form of reviewed `%s` (%d site(s) of this form, %d reviewed): %s' % (src_, tl_total[tkey[key]], tl_reviewed.get(tkey[key], 0), ent['reason'])
        nid, line = where[key]
        if ent is None:
            r.instance(site=key, count=n, discharged=None)
            r.violate(nid, 'unreviewed-arithmetic', key, 'arithmetic of a kind (operation | operand fields / types) that occurs nowhere in the reviewed code and can overflow / go out of '
                      'bounds: %s in %s' % (key, nid), where=ctx.where(nid, line), expected='checked / saturating arithmetic, or a reviewed entry in tables/arith_sites.json')
            continue
        r.instance(site=key, count=n, discharged='TABLE:' + ent['class'], reason=ent['reason'])
        if ent['class'] == 'ASSUMPTION':
            r.assumptions.append('arithmetic %s: %s' % (key, ent['reason']))
    stale = sorted(set(want) - set(found))
    if stale:
        r.notes.append('table entries no longer matched (harmless): %s' % stale)
    r.notes.append('%d sites discharged automatically, %d by table' % (auto, sum(found.values())))
    r.notes.append('type-level totals: %s' % dict(sorted(tl_total.items())))
    r.require_floor(25, 'arithmetic assert sites')
    return r


def _const_str_arg(b, t):
    """The string literal passed to a panic / expect call (directly or through one local)."""
    for a_ in t['args']:
        if a_.get('k') == 'const' and isinstance(a_.get('text'), str):
            return a_['text']
        l_ = op_local(a_)
        if l_ is not None and (a_.get('pty') or b.local_ty(l_)['s']) in ('&str', "&'static str"):
            # `_7 = &(*_8); _8 = const "..."`
            for _hop in range(3):
                ds_ = b.defs().get(l_, [])
                if len(ds_) != 1 or ds_[0][0] != 'assign':
                    break
                rv_ = ds_[0][3]['rv']
                if rv_['rv'] == 'use' and rv_['op'].get('k') == 'const' and isinstance(rv_['op'].get('text'), str):
                    return rv_['op']['text']
                if rv_['rv'] == 'use' and op_local(rv_['op']) is not None:
                    l_ = op_local(rv_['op'])
                elif rv_['rv'] == 'ref':
                    l_ = rv_['pl']['l']
                else:
                    break
    return ''


def rule_inv_panic(ctx):
    r = RuleResult('INV-PANIC', 'complete inventory of panic-capable call sites (panic!/unreachable!/assert!/begin_panic, Option/Result unwrap/expect); each is '
                   'classified: lock poisoning (only after a panic of user code while the lock was held), the documented builder assert, an '
                   'unwrap whose operand is established Some/Ok on every path by the abstract interpreter, or a reasoned table line keyed crate-wide by '
                   '(callee, operand type) resp. (panic message, module) with the reviewed number of occurrences; more occurrences or a new kind are reported')
    prog = ctx.prog
    table = load_table('panic_sites.json')
    want = {e['key']: e for e in table['sites']}
    found = Counter()
    where = {}
    mkey = {}
    sites = defaultdict(list)
    pairs = defaultdict(set)
    auto = Counter()
    # unwrap facts per function via the abstract interpreter
    proved = {}

    def unwrap_facts(nid):
        if nid in proved:
            return proved[nid]
        res = defaultdict(list)
        b = prog.bodies[nid]
        try:
            sx = ctx.symex(inline_depth=0, loop_visits=2, inline_pred=lambda n_, bb, d: True if (bb.kind == 'closure' and d < 2) else False)
            for p in sx.run(nid):
                for e in p.events:
                    if e[0] == 'unwrap' and e[5] == nid:
                        res[e[4]].append(e[3])
        except PathLimit:
            pass
        proved[nid] = res
        return res
    for nid, b in sorted(prog.bodies.items()):
        for bi, t in b.calls():
            tg, ext, _ = prog.call_targets(b, t)
            if not ext:
                continue
            last = ext.split('::')[-1]
            is_panic = ext.startswith(('core::panicking::', 'std::rt::begin_panic', 'std::rt::panic', 'std::panicking::')) or 'unwrap_failed' in ext or 'expect_failed' in ext
            is_unwrap = last in ('unwrap', 'expect', 'unwrap_unchecked', 'expect_err', 'unwrap_err') and ext.startswith(('std::option::Option::', 'std::result::Result::'))
            if not (is_panic or is_unwrap):
                continue
            a0 = t['args'][0] if t['args'] else None
            ty = b.local_ty(op_local(a0))['s'] if (a0 is not None and op_local(a0) is not None) else ''
            if is_unwrap and ('std::sync::PoisonError' in ty or 'Guard<' in ty and ty.startswith('std::result::Result<')):
                auto['LOCK-POISON'] += 1
                r.instance(function=nid, call=last, on=ty[:60], discharged='LOCK-POISON')
                continue
            pmsg = _const_str_arg(b, t)
            # the documented panic of build(): "time_to_live / time_to_idle is longer than 1000 years" (MUST-build-validate decides when it fires)
            if is_panic and ('longer than 1000 years' in pmsg or nid in _validate_roles(ctx)):
                auto['DOCUMENTED'] += 1
                r.instance(function=nid, call=ext, discharged='DOCUMENTED (time_to_live / time_to_idle above 1000 years)')
                continue
            if is_unwrap:
                facts = unwrap_facts(nid).get(t.get('line'))
                if facts and all(facts):
                    auto['PROVED-SOME'] += 1
                    r.instance(function=nid, call=last, on=ty[:60], discharged='PROVED: operand is Some/Ok on all %d path(s)' % len(facts))
                    continue
            head = ty.split('<')[0].split('::')[-1] if ty else ''
            inner = ty[ty.find('<') + 1:].split('<')[0].split(',')[0].strip('&').replace('mut ', '').split('::')[-1].rstrip('>') if '<' in ty else ''
            if is_unwrap:
                key = '%s|%s' % ('::'.join(ext.split('::')[-2:]), head + '<' + inner + '>')
                if last == 'expect' and pmsg:
                    # an `expect` is also identified by its message (the operand type changes when the code around it is made generic)
                    mkey[key] = '%s|msg:%s' % ('::'.join(ext.split('::')[-2:]), pmsg[:60])
                    # ... and, together with the function whose result it unwraps, names ONE reviewed obligation: the same message on the result
                    # of the same callee at a second site (a recording helper split in two) is the same obligation
                    prod = None
                    l0 = op_local(a0) if a0 is not None else None
                    ds0 = b.defs().get(l0, []) if l0 is not None else []
                    if len(ds0) == 1 and ds0[0][0] == 'call':
                        tg0 = prog.call_targets(b, ds0[0][3])
                        prod = (sorted(tg0[0])[0] if tg0[0] else tg0[1])
                    pairs[key].add((prod, pmsg) if prod else (nid, t.get('line')))
                else:
                    pairs[key].add((nid, t.get('line')))
            else:
                # panic!/unreachable!/assert!: keyed by the message (constant operand), crate-wide
                msg = ''
                for a in t['args']:
                    if a.get('k') == 'const' and isinstance(a.get('text'), str):
                        msg = a['text'][:60]
                        break
                # keyed by message and top-level module (cache kind): moving the function to a sibling module does not change the key
                mod_ = (b.root or nid).split('::')[0:1]
                key = '%s|%s|%s' % (last, msg, '::'.join(x.strip('<') for x in mod_))
                if last == 'begin_panic' and msg and 'unreachable' not in msg:
                    # panic!("<message>"): the message names the reviewed condition; counted crate-wide (a shared helper may live in any module)
                    key = '%s|%s' % (last, msg)
            found[key] += 1
            where[key] = (nid, t.get('line'))
            sites[key].append((nid, t.get('line')))
    msg_table = table.get('expect_messages', {})

    def never_reached(fn, line, depth=0, force=()):
        """The diverging call at (fn, line) is on no explored path of fn itself, or -- fn being private -- of any of its callers with fn
        stepped into (the callers pass constants that exclude the arm: `match region { .., Other => unreachable!() }`)."""
        root = prog.bodies[fn].root if prog.bodies[fn].kind == 'closure' and prog.bodies[fn].root else fn
        fset = set(force) | {fn, root}

        def reaches(entry):
            try:
                sx = ctx.symex(inline_depth=3, loop_visits=2, max_paths=3000,
                               inline_pred=lambda n_, bb, d: True if (n_ in fset or (bb.kind == 'closure' and d < 3)) else False)
                ps = sx.run(entry)
            except PathLimit:
                return True
            return (not ps) or any(e[0] == 'diverge' and e[3] == line and e[4] == fn for p_ in ps for e in p_.events)
        if not reaches(root):
            return 'in %s itself' % root.split('::')[-1]
        if depth >= 2 or root in set(prog.public_api()):
            return None
        cs = {(prog.bodies[c].root if prog.bodies[c].kind == 'closure' and prog.bodies[c].root else c) for c in prog.callers().get(root, ())} - {root}
        if not cs or len(cs) > 6:
            return None
        whys = []
        for c in sorted(cs):
            if not reaches(c):
                whys.append(c.split('::')[-1])
                continue
            w = None
            if c not in set(prog.public_api()) and depth < 1:
                cs2 = {(prog.bodies[x].root if prog.bodies[x].kind == 'closure' and prog.bodies[x].root else x) for x in prog.callers().get(c, ())} - {c, root}
                if cs2 and len(cs2) <= 4:
                    fset.add(c)
                    if all(not reaches(c2) for c2 in sorted(cs2)):
                        w = c.split('::')[-1] + ' <- ' + ','.join(sorted(x.split('::')[-1] for x in cs2))
            if w is None:
                return None
            whys.append(w)
        return 'in every calling context: ' + '; '.join(whys)
    for key, n in sorted(found.items()):
        ent = want.get(key)
        if ent is None and mkey.get(key) in msg_table and msg_table[mkey[key]] in want:
            ent = dict(want[msg_table[mkey[key]]])
            ent['reason'] = 'same expect (by message) as reviewed `%s`: %s' % (msg_table[mkey[key]], ent['reason'])
            ent['count'] = max(ent.get('count', 1), n)
        nid, line = where[key]
        if ent is None:
            r.instance(site=key, count=n, discharged=None)
            r.violate(nid, 'unreviewed-panic', key.split('|', 1)[1], 'panic-capable call that is neither proved unreachable nor covered by a reviewed table entry: %s' % key,
                      where=ctx.where(nid, line), expected='handle the None/Err case, or a reviewed entry in tables/panic_sites.json')
            continue
        if pairs.get(key) and len(pairs[key]) < n:
            n = len(pairs[key])     # distinct (unwrapped callee, message) obligations
        r.instance(site=key, count=n, discharged='TABLE:' + ent['class'], reason=ent['reason'])
        if n > ent.get('count', 1) and 'unreachable' in key:
            # more `unreachable!()` sites than reviewed: those that are on no path of any calling context do not count
            for fn_, ln_ in sites[key]:
                if n <= ent.get('count', 1):
                    break
                w_ = never_reached(fn_, ln_)
                if w_:
                    n -= 1
                    auto['PROVED-UNREACHABLE'] += 1
                    r.instance(function=fn_, call='unreachable!()', discharged='PROVED: the arm is on no explored path ' + w_)
        if n > ent.get('count', 1):
            r.violate(nid, 'unreviewed-panic', key.split('|', 1)[1] + '#%d' % n, '%d occurrences of %s but only %d reviewed' % (n, key, ent.get('count', 1)), where=ctx.where(nid, line))
    stale = sorted(set(want) - set(found))
    if stale:
        r.notes.append('table entries no longer matched (harmless): %s' % stale)
    r.notes.append('automatic: %s; by table: %d' % (dict(auto), sum(found.values())))
    r.require_floor(25 if ctx.has_sync else 10, 'panic-capable call sites')
    return r


def _validate_roles(ctx):
    if 'validate_roles' not in ctx.cache:
        from .rules_config import _validate_role
        vs = set(_validate_role(ctx))
        # private helpers called by nothing but the validation (one check per duration, extracted)
        callers = ctx.prog.callers()
        changed = True
        while changed:
            changed = False
            for v in sorted(vs):
                for c in ctx.prog.callees(v):
                    cb = ctx.prog.bodies.get(c)
                    if c not in vs and cb is not None and cb.kind != 'closure' and callers.get(c) and \
                            all((ctx.prog.bodies[x].root if ctx.prog.bodies[x].kind == 'closure' and ctx.prog.bodies[x].root else x) in vs for x in callers[c]):
                        vs.add(c); changed = True
        ctx.cache['validate_roles'] = vs
    return ctx.cache['validate_roles']


def rule_inv_unsafe(ctx):
    r = RuleResult('INV-UNSAFE', 'complete inventory of unsafe blocks (per function), unsafe fns and unsafe impls; each function with unsafe code has a table line '
                   'naming its obligation and the rule that discharges it; new unsafe code, or more blocks than reviewed, is reported; '
                   'unsafe impl Send/Sync carry exactly the reviewed bounds')
    prog = ctx.prog
    table = load_table('unsafe_sites.json')
    want = {e['group']: e for e in table['groups']}

    def group_of(owner):
        """pointer modules are reviewed as a whole; unsafe code elsewhere ('cache level') is classified by the unsafe operation it performs"""
        root = prog.bodies[owner].root if owner in prog.bodies and prog.bodies[owner].root else owner
        for g in table['module_groups']:
            if root.startswith(g) or root.startswith('<' + g) or root.startswith('<&mut ' + g):
                return g
        # an impl of a trait of the pointer module for a foreign type (`impl NodePtrExt for NonNull<DeqNode<T>>`), or any item whose source
        # file is the pointer module's: the module it is written in is what was reviewed as a whole
        fb = prog.bodies.get(root)
        fmod = (fb.file[4:-3].replace('/', '::') + '::') if (fb is not None and str(fb.file).startswith('src/') and str(fb.file).endswith('.rs')) else None
        for g in table['module_groups']:
            if g.endswith('::') and ((' as ' + g) in root or fmod == g):
                return g
        # the timestamp accessors of the unsync entry (they read / write the time kept in the entry's own queue node through its pointer), whatever
        # module of `unsync` the entry type lives in and whether they are inherent methods or impls of one or two accessor traits
        g_ts = 'unsync::ValueEntry as unsync::AccessTime'
        if g_ts in table['module_groups'] and fb is not None and fb.impl_self:
            adt_ = norm(str(fb.impl_self.get('adt') or ''))
            if adt_.startswith('unsync::') and adt_.endswith('::ValueEntry') and len(fb.blocks) <= 40:
                grp_ = [fb] + [bc for bc in prog.bodies.values() if bc.kind == 'closure' and bc.root == root]
                ops_ = {norm(str(t_.get('callee') or '')).split('::')[-1] for bx in grp_ for _, t_ in bx.calls() if t_.get('callee_unsafe') and not t_.get('exp')}
                if ops_ and ops_ <= {'as_ref', 'as_mut'}:
                    return g_ts
        return None
    classes = table['cache_level_ops']

    def class_of(callee, st_):
        for k_, ent in classes.items():
            if callee == ent['callee'] and (not ent.get('on') or st_ == ent['on']):
                return k_
        if callee in prog.bodies and prog.bodies[callee].unsafe_fn and group_of(callee):
            return 'list-operation'
        if callee in prog.bodies and prog.bodies[callee].unsafe_fn and transparent(callee):
            return 'reviewed-helper'
        return None

    def transparent(fn, _seen=()):
        """An `unsafe fn` outside the pointer modules that only packages operations of the reviewed classes (it reads a deque node through its
        pointer / calls a guarded list operation) and touches no raw pointer itself: extracting such a helper from an unsafe block moves the
        obligation to its callers' unsafe blocks, which are inventoried here like any other."""
        key_ = ('transparent-unsafe-fn', fn)
        if key_ not in ctx.cache:
            ctx.cache[key_] = False
            b_ = prog.bodies.get(fn)
            if b_ is not None and b_.unsafe_fn and fn not in _seen:
                group_ = [b_] + [bc for bc in prog.bodies.values() if bc.kind == 'closure' and bc.root == fn]
                ops_ = [(norm(t.get('callee') or ''), (t.get('self_ty') or {}).get('adt') or '') for bx in group_ for _, t in bx.calls()
                        if t.get('callee_unsafe') and not t.get('exp')]
                raw_ = any(str(l_['ty']['s']).startswith(('*const', '*mut')) for bx in group_ for l_ in bx.locals)
                ctx.cache[key_] = bool(ops_) and not raw_ and all(class_of(c_, s_) is not None for c_, s_ in ops_ if c_ != fn)
        return ctx.cache[key_]
    c = Counter()
    cache_level = []
    for u in ctx.facts['unsafe_blocks']:
        g = group_of(norm(u['owner']))
        if g is None:
            if u.get('user', True):
                cache_level.append(u)
        else:
            c[g] += 1
    for g, n in sorted(c.items()):
        ent = want[g]
        r.instance(group=g, unsafe_blocks=n, reviewed='module', obligation=ent['obligation'], discharged_by=ent['by'])
    # cache-level unsafe blocks: wherever they live (the enclosing function may be split, merged or renamed), each may only perform
    # operations of a reviewed class
    for u in cache_level:
        owner = norm(u['owner'])
        b = prog.bodies.get(owner)
        ops = []
        if b is not None:
            for bi, t in b.calls():
                if t.get('callee_unsafe') and not t.get('exp') and u['span']['lo'] <= (t.get('line') or -1) <= u['span']['hi']:
                    callee = norm(t.get('callee') or '')
                    st_ = (t.get('self_ty') or {}).get('adt') or ''
                    ops.append((callee, st_))
        where_ = '%s:%s' % (u['span']['file'], u['span']['lo'])
        if not ops:
            r.instance(unsafe_block_in=owner, operations=[], reviewed=False)
            r.violate(owner, 'unreviewed-unsafe', 'non-call unsafe operation', 'unsafe block in %s performs an unsafe operation that is not a call (raw dereference, '
                      'static mut, union access): not a reviewed class of unsafe code outside the pointer modules' % owner, where=where_)
            continue
        for callee, st_ in ops:
            cls = class_of(callee, st_)
            r.instance(unsafe_block_in=owner, operation=callee, on=st_, klass=cls,
                       obligation=(classes.get(cls) or {}).get('obligation', 'membership of the node in the deque: PTR-guarded-call decides every such call site'))
            if cls is None:
                r.violate(owner, 'unreviewed-unsafe', callee.split('::')[-1], 'unsafe block in %s calls %s (on %s): not a reviewed class of unsafe operation outside the pointer '
                          'modules' % (owner, callee, st_ or '?'), where=where_, expected='only reads of a deque node through its pointer (NonNull<DeqNode>::as_ref) or guarded list operations')
    ufns = sorted(b.nid for b in prog.bodies.values() if b.unsafe_fn)
    for fn in ufns:
        ok = fn in table['unsafe_fns'] or any(fn.startswith(g) for g in table['module_groups']) or group_of(fn) is not None
        if not ok and transparent(fn):
            r.instance(unsafe_fn=fn, reviewed='only packages reviewed classes of unsafe operations; its call sites are inventoried as unsafe blocks')
            continue
        r.instance(unsafe_fn=fn, reviewed=ok)
        if not ok:
            r.violate(fn, 'unreviewed-unsafe', 'unsafe fn', 'new unsafe fn %s' % fn, where=ctx.where(fn))
    # unsafe impls
    wanted = table['unsafe_impls']
    seen = set()
    for i in ctx.facts['impls']:
        if not i.get('unsafe'):
            continue
        tr = i['trait_ref']
        if 'TrivialClone' in tr:
            continue   # emitted by #[derive(Clone, Copy)]
        key = norm(tr)
        seen.add(key)
        ent = wanted.get(key)
        preds = sorted(p for p in i['where'] if not p.endswith('std::marker::Sized') and "'" not in p.split(': ')[-1])
        if ent is None:
            r.instance(unsafe_impl=key, where=preds, reviewed=False)
            r.violate(key, 'unreviewed-unsafe', 'unsafe impl', 'new unsafe impl %s' % tr, where='%s:%s' % (i['span']['file'], i['span']['lo']))
            continue
        missing = [p for p in ent['requires'] if p not in i['where']]
        r.instance(unsafe_impl=key, where=preds, required=ent['requires'], missing=missing)
        if missing:
            r.violate(key, 'unsafe-impl-bounds', ','.join(missing), 'unsafe impl %s no longer requires %s: a cache of non-thread-safe keys/values could cross threads' % (tr, missing),
                      where='%s:%s' % (i['span']['file'], i['span']['lo']), expected='where ' + ', '.join(ent['requires']))
    for key in wanted:
        if key not in seen and any(n.startswith('sync::') for n in prog.bodies):
            r.notes.append('reviewed unsafe impl no longer present: %s' % key)
    r.require_floor(15 if ctx.has_sync else 6, 'unsafe groups, fns and impls')
    return r


# ------------------------------------------------------------------------------------------------ raw pointers


def rule_ptr_guarded_call(ctx):
    r = RuleResult('PTR-guarded-call', 'every call of an unsafe list operation (unlink / unlink_and_drop / move_to_back) from the deque wrappers happens only on paths '
                   'where Deque::contains(that deque, that node) returned true (and, for tagged pointers, the region tag was matched); listed '
                   'exceptions: nodes obtained from this deque\'s own traversal in the same maintenance step')
    prog = ctx.prog
    R = get_roles(ctx)
    unsafe_ops = {n for n in prog.bodies if prog.bodies[n].unsafe_fn and n.startswith('common::deque::Deque::')}
    if len(unsafe_ops) < 3:
        raise CheckFailure('PTR-guarded-call: unsafe deque operations not found: %s' % sorted(unsafe_ops))
    n = 0
    # a list operation that performs the membership test itself (`*_if_member`: every raw primitive it calls is guarded inside it) is safe
    # to call unguarded; its own body is judged like a caller
    prims = (R.move | R.unlink | R.free) & unsafe_ops
    combos = sorted(u for u in unsafe_ops if u not in prims or (prog.callees(u) & unsafe_ops))
    self_guarded = set()
    for u in combos:
        if not (prog.callees(u) & unsafe_ops):
            continue
        okall, seen = True, 0
        try:
            for p in ctx.symex(inline_depth=0, loop_visits=2).run(u):
                for e in p.events:
                    if e[0] == 'call' and e[1] in unsafe_ops and e[1] != u:
                        seen += 1
                        deq, node = e[2][0], e[2][1]
                        g = any(v is True and isinstance(t, tuple) and t[0] == 'call' and t[1] in R.member and t[2][0] == deq and
                                (t[2][1] == node or _same_ptr(t[2][1], node) or any(x == node for x in subterms(t[2][1]))) for t, v in p.conds)
                        okall = okall and g
        except PathLimit:
            okall = False
        if seen and okall:
            self_guarded.add(u)
            r.instance(operation=u, kind='membership-guarded list operation', inner_sites=seen, guarded_inside=True)
    need_guard = unsafe_ops - self_guarded
    # closures are analysed in the context of the function that creates them (the iterator / Option adaptors run them in place)
    callers = sorted({(prog.bodies[c].root if prog.bodies[c].kind == 'closure' and prog.bodies[c].root else c)
                      for u in need_guard for c in prog.callers().get(u, ()) if not c.startswith('common::deque::')})
    unsafe_ops = need_guard
    # completeness reference: the call sites the call graph knows (file lines of call terminators naming one of the operations)
    expected_sites = set()
    for c0 in {c0 for u in need_guard for c0 in prog.callers().get(u, ()) if not c0.startswith('common::deque::')}:
        b0 = prog.bodies[c0]
        for bi0, t0 in b0.calls():
            for tg0 in prog.call_targets(b0, t0)[0]:
                if tg0 in need_guard:
                    expected_sites.add((tg0, t0.get('line')))
    covered_sites = set()
    inner_sites = 0
    for c in callers:
        b = prog.bodies[c]
        try:
            sx = ctx.symex(inline_depth=1, loop_visits=2, inline_pred=lambda n_, bb, d: True if wrapper_kind(ctx, n_) and d < 2 else False)
            paths = sx.run(c)
        except PathLimit:
            raise CheckFailure('PTR-guarded-call: path limit in %s' % c)
        per_site = defaultdict(list)
        per_node = defaultdict(list)
        for p in paths:
            for e in p.events:
                if e[0] == 'call' and e[1] in unsafe_ops:
                    deq, node = e[2][0], e[2][1]
                    guarded = False
                    for t, v in p.conds:
                        if v is True and isinstance(t, tuple) and t[0] == 'call' and t[1] in R.member:
                            d2, n2 = t[2][0], t[2][1]
                            same_node = (n2 == node) or any(x == n2 for x in subterms(node)) or any(x == node for x in subterms(n2)) or _same_ptr(n2, node)
                            if d2 == deq and same_node:
                                guarded = True
                    per_site[(e[1], e[3])].append(guarded)
                    if not guarded:
                        per_node[(e[1], e[3])].append(node)
        for (op, line), gs in sorted(per_site.items()):
            n += 1
            covered_sites.add((op, line))
            ok = all(gs)
            exc = None
            if not ok:
                # structural exception: every unguarded node is an element of the node lists returned by the admission scan of the same step
                # (obtained from this deque's own traversal under the exclusive borrow / deques mutex; nothing but identity-guarded victims is
                # freed in between -- STALE-removal)
                # (only for MOVING a node: a node may be freed only through the entry that owns the pointer, which clears it -- an entry that
                # has left the map but is still referenced by a queued op keeps pointing at its node)
                nodes = per_node[(op, line)]
                if op in R.move and op not in (R.free | R.unlink_node) and nodes and all(_from_admission(ctx, c, nd_) for nd_ in nodes):
                    exc = {'reason': 'node taken from the node lists returned by the admission scan in the same maintenance step'}
            r.instance(caller=c, operation=op.split('::')[-1], paths=len(gs), guarded_on_all=ok, exception=exc['reason'] if (exc and not ok) else None)
            if not ok and not exc:
                r.violate(c, 'unguarded-list-call', op.split('::')[-1], '%s calls the unsafe %s on a path where membership of the node in that deque was not established '
                          '(Deque::contains): unlinking / moving a node that is not in the list corrupts it or frees memory twice' % (c, op.split('::')[-1]),
                          where=ctx.where(c, line), expected='if deq.contains(node) { unsafe { deq.%s(node) } }' % op.split('::')[-1])
    missed = sorted(expected_sites - covered_sites, key=str)
    if missed and not r.violations:
        raise CheckFailure('PTR-guarded-call: %d call site(s) of unsafe list operations known to the call graph were not reached by any explored path: %s' % (
            len(missed), ['%s@%s' % (o.split('::')[-1], l) for o, l in missed][:6]))
    r.notes.append('call sites outside the list module: %d (all %d known to the call graph covered); membership-guarded operations: %d' % (
        n, len(expected_sites), len(self_guarded)))
    # the floor counts the sites wherever the guard lives: in the callers, or inside membership-guarded list operations
    if n + sum(1 for _ in self_guarded) < (3 if ctx.has_sync else 2):
        raise CheckFailure('PTR-guarded-call: only %d call site(s) and %d membership-guarded operation(s) analysed -- the rule would pass vacuously (anchor moved?)' % (n, len(self_guarded)))
    return r


def _from_admission(ctx, fn, node, _depth=0):
    """node term is an element of a value returned by the admission role; through one level of helper parameters."""
    from .rules_admit import admits
    adm = {a for a, _k in admits(ctx) if ctx.has_sync or _k == 'unsync'}
    if any(isinstance(x, tuple) and x and x[0] == 'call' and x[1] in adm for x in subterms(node)):
        return True
    # a caller-owned node list that the admission scan filled through a `&mut` out-parameter
    if any(isinstance(x, tuple) and x and x[0] == 'call' and x[1] == 'escaped' and len(x[2]) > 1 and isinstance(x[2][1], tuple) and x[2][1][0] == 'c' and x[2][1][1] in adm
           for x in subterms(node)):
        return True
    params = {x[1] for x in subterms(node) if isinstance(x, tuple) and x and x[0] == 'param'}
    if not params or _depth >= 2:
        return False
    callers = sorted(ctx.prog.callers().get(fn, ()))
    if not callers:
        return False
    for cl in callers:
        sx = ctx.symex(inline_depth=0, loop_visits=2)
        try:
            paths = sx.run(cl)
        except PathLimit:
            return False
        found = False
        for p in paths:
            for e in p.events:
                if e[0] == 'call' and e[1] == fn:
                    found = True
                    for i in params:
                        if i - 1 >= len(e[2]) or not _from_admission(ctx, cl, e[2][i - 1], _depth + 1):
                            return False
        if not found:
            return False
    return True


def _same_ptr(a, b):
    """NonNull::as_ref(x) vs x, decompose(tagged).0 vs tagged ... compare modulo pointer views."""
    def core(t):
        while isinstance(t, tuple) and t and ((t[0] == 'fld' and t[2] in (0, '0')) or (t[0] == 'call' and str(t[1]).split('::')[-1] in ('decompose', 'decompose_ptr', 'as_ref', 'as_ptr', 'decompose_non_null') and t[2])):
            t = t[1] if t[0] == 'fld' else t[2][0]
        return t
    return core(a) == core(b)


def rule_auth_node_free(ctx):
    r = RuleResult('AUTH-node-free', 'deque nodes are created (Box::into_raw) only by the push role and freed (Box::from_raw) only by the pop / unlink-and-drop roles; the '
                   'non-dropping unlink is called only by the dropping wrapper; the sync cache never pops nodes (queued ops may still point at '
                   'them: stale nodes are rotated, not freed); the unsync cache pops only orphan nodes whose key is absent from the map; '
                   'mem::forget / ManuallyDrop / leak appear only in the list destructor')
    prog = ctx.prog
    R = get_roles(ctx)
    callers = prog.callers()
    # Box::into_raw / from_raw sites
    for fn in sorted(prog.bodies):
        ext = R.ext_calls[fn]
        if 'std::boxed::Box::into_raw' in ext:
            ok = fn in R.push
            r.instance(function=fn, primitive='Box::into_raw', ok=ok)
            if not ok:
                r.violate(fn, 'box-raw', 'into_raw', 'Box::into_raw outside the list push role (%s)' % fn, where=ctx.where(fn))
        if 'std::boxed::Box::from_raw' in ext:
            ok = fn.startswith('common::deque::Deque::')
            r.instance(function=fn, primitive='Box::from_raw', ok=ok)
            if not ok:
                r.violate(fn, 'box-raw', 'from_raw', 'Box::from_raw outside the list pop / unlink-and-drop roles (%s)' % fn, where=ctx.where(fn))
        for bad in ('std::mem::forget', 'std::mem::ManuallyDrop::new', 'std::boxed::Box::leak', 'std::sync::Arc::into_raw', 'std::rc::Rc::into_raw', 'triomphe::Arc::into_raw',
                    'std::mem::transmute', 'std::ptr::read', 'std::ptr::write', 'std::ptr::drop_in_place'):
            if bad in ext:
                ok = (bad == 'std::mem::forget' and fn == '<common::deque::Deque as std::ops::Drop>::drop')
                r.instance(function=fn, primitive=bad, ok=ok)
                if not ok:
                    r.violate(fn, 'leak-primitive', bad.split('::')[-1], '%s used in %s: ownership of a key/value/node escapes the borrow checker' % (bad, fn), where=ctx.where(fn))
    # the re-boxed node is really released: it is dropped (or handed to the caller by the pop role), never parked in the list's own state --
    # a parked node keeps its element (key clone, EntryInfo) alive although no entry uses it any more
    for fn in sorted(prog.bodies):
        if 'std::boxed::Box::from_raw' not in R.ext_calls[fn] or not fn.startswith('common::deque::'):
            continue
        try:
            ps_ = ctx.symex(inline_depth=0, loop_visits=2).run(fn)
        except PathLimit:
            raise CheckFailure('AUTH-node-free: path limit in %s' % fn)
        for p in ps_:
            for e in p.events:
                if e[0] == 'call' and e[1] == 'std::boxed::Box::from_raw':
                    res = e[6] if len(e) > 6 else ('call', e[1], e[2])
                    def _holds(v_):     # the box itself (possibly wrapped: Some(box)), not a value read out of the node
                        return v_ == res or (isinstance(v_, tuple) and v_ and ((v_[0] == 'aggr' and any(_holds(c_) for c_ in v_[3])) or (v_[0] == 'tuple' and any(_holds(c_) for c_ in v_[1]))))
                    kept = [w for w in p.events if w[0] == 'write' and _holds(w[2])]
                    r.instance(function=fn, reboxed_node='dropped or returned' if not kept else 'stored to %s' % fmt(kept[0][1])[:40], ok=not kept)
                    if kept:
                        r.violate(fn, 'freed-node-retained', fmt(kept[0][1])[:40], '%s re-boxes a node and stores the box to `%s` instead of dropping it: the node, the key clone and the entry info '
                                  'it owns outlive the entry' % (fn, fmt(kept[0][1])[:40]), where=ctx.where(fn, kept[0][3]), expected='std::mem::drop(Box::from_raw(node.as_ptr()))')
    # non-dropping unlink: only from unlink_and_drop
    unl = sorted(R.unlink_node)
    for u in unl:
        for c in sorted(callers.get(u, ())):
            ok = c in R.free
            r.instance(function=u, caller=c, ok=ok)
            if not ok:
                r.violate(c, 'unlink-without-drop', 'Deque::unlink', '%s unlinks a node without freeing it (the node and the key clone it owns leak)' % c, where=ctx.where(c),
                          expected='unlink_and_drop')
    # pop role callers
    pops = sorted(R.pop)
    for pf in pops:
        for c in sorted(callers.get(pf, ())):
            if c.startswith(('common::deque::', '<common::deque::', '<<common::deque::')):
                r.instance(function=pf, caller=c, ok=True, why='list destructor')
                continue
            if c.startswith(('unsync::', '<unsync::')):
                # must be on a path where the key was not found in the map
                sx = ctx.symex(inline_depth=2, loop_visits=2)
                okall = True
                seen = 0
                for p in sx.run(c):
                    for e in p.events:
                        if e[0] == 'call' and e[1] == pf:
                            seen += 1
                            absent = any(isinstance(t, tuple) and t[0] == 'discr' and v == 0 and any(isinstance(x, tuple) and x and x[0] == 'call' and str(x[1]) == 'std::collections::HashMap::remove' for x in subterms(t))
                                         for t, v in p.conds)
                            if not absent:
                                okall = False
                r.instance(function=pf, caller=c, pop_sites_on_paths=seen, only_when_key_absent=okall)
                if not okall:
                    r.violate(c, 'pop-of-owned-node', 'pop_front', '%s pops (frees) the front node on a path where the map may still hold an entry pointing to it: dangling node pointer' % c,
                              where=ctx.where(c), expected='pop_front only after cache.remove(key) returned None')
                continue
            r.instance(function=pf, caller=c, ok=False)
            r.violate(c, 'pop-in-sync', 'pop_front', '%s frees a deque node with pop_front: in the concurrent cache an entry still queued in a WriteOp may point to that node '
                      '(use-after-free when the op is applied); stale nodes must be rotated (move_front_to_back), not freed' % c, where=ctx.where(c),
                      expected='move_front_to_back')
    r.require_floor(6, 'raw-pointer primitives / callers')
    return r


def rule_deque_shape(ctx):
    r = RuleResult('DEQUE-shape', 'local shape invariants of the intrusive list on every path of every list operation: the list is empty at its head iff it is empty at its '
                   'tail (whenever head becomes None, tail becomes None and vice versa); len changes by exactly -1 on pop/unlink, +1 on push, 0 '
                   'on move; a node that leaves the list gets prev = next = None')
    prog = ctx.prog
    fns = [n for n in prog.bodies if n.startswith('common::deque::Deque::') and any(
        e[0] == 'write' and e[1] == DEQUE and e[2] in ('head', 'tail', 'len') for e in ctx.eff.direct.get(n, ()))]
    # shared link helpers (`set_next_of(prev, next)`: neighbour or head) are no list operations: they are stepped into from the operations that call them
    _lh = getattr(get_roles(ctx), 'link_helpers', set())
    fns = [f for f in fns if not f.endswith('::new') and f not in _lh]
    fns += [n for n in prog.bodies if n.startswith('common::deque::Deque::') and n not in fns and n not in _lh and prog.bodies[n].kind != 'closure' and (prog.callees(n) & _lh)]
    n = 0
    for nid in sorted(fns):
        b = prog.bodies[nid]
        # the list's own read-only predicates (is this node the head / the tail / under the cursor, however they are factored) are part of the path
        def _pure_pred(n_, bb, d):
            if n_ in _lh and d < 3:
                return True
            if ' as common::deque::' in n_ and bb.kind != 'closure' and d < 3 and not bb.loops() and len(bb.blocks) <= 12:
                return True     # link accessors of the list module written as an extension trait on the node pointer
            return bool(n_.startswith('common::deque::Deque::') and d < 3 and not bb.loops() and
                        not any(e[0] == 'write' for e in ctx.eff.transitive(n_)) and not ctx.eff.mut_params.get(n_))
        sx = ctx.symex(inline_depth=3, loop_visits=2, inline_pred=_pure_pred)
        try:
            paths = [p for p in sx.run(nid) if not p.diverged]
        except PathLimit:
            raise CheckFailure('DEQUE-shape: path limit in %s' % nid)
        for p in paths:
            # inductive hypothesis (shape before the call): a member node has next == None iff it is the tail and
            # prev == None iff it is the head -- paths contradicting it are infeasible
            infeasible = False
            for c, v in p.conds:
                if isinstance(c, tuple) and c[0] == 'discr' and v == 0 and isinstance(c[1], tuple) and c[1][0] == 'fld' and c[1][2] in ('next', 'prev'):
                    node = c[1][1]
                    end = 'tail' if c[1][2] == 'next' else 'head'
                    for c2, v2 in p.conds:
                        if v2 is False and isinstance(c2, tuple) and c2[0] == 'call' and str(c2[1]).endswith('ptr::eq') and \
                                any(isinstance(x, tuple) and x and x[0] == 'fld' and x[2] == end for a in c2[2] for x in subterms(a)) and any(a == node or _same_ptr(a, node) for a in c2[2]):
                            infeasible = True
            # a list operation on a member node implies a non-empty list
            takes_node = any('NonNull<common::deque::DeqNode' in l['ty']['s'] for l in b.locals[1:b.argc + 1])
            if takes_node:
                for c, v in p.conds:
                    if isinstance(c, tuple) and c[0] == 'discr' and v == 0 and isinstance(c[1], tuple) and c[1][0] == 'fld' and c[1][1] == ('param', 1) and c[1][2] in ('head', 'tail'):
                        infeasible = True
            if infeasible:
                continue
            finals = {}
            for e in p.events:
                if e[0] == 'write' and isinstance(e[1], tuple) and e[1][0] == 'fld' and e[1][2] in ('head', 'tail', 'len') and not any(
                        isinstance(x, tuple) and x and x[0] == 'fld' and x[2] in ('next', 'prev', 'element') for x in subterms(e[1][1])):
                    finals[e[1][2]] = e[2]
            if not finals:
                continue
            n += 1

            def is_none(v):
                if v == NONE:
                    return True
                return p.known.get(('discr', v)) == 0

            def is_some(v):
                if isinstance(v, tuple) and v and v[0] == 'aggr' and v[2] == 'Some':
                    return True
                return p.known.get(('discr', v)) == 1
            h, t_ = finals.get('head'), finals.get('tail')
            bad = None
            if h is not None and is_none(h) and not (t_ is not None and is_none(t_)):
                bad = 'head becomes None but tail is %s' % ('left unchanged' if t_ is None else fmt(t_)[:40])
            if t_ is not None and is_none(t_) and not (h is not None and is_none(h)):
                bad = 'tail becomes None but head is %s' % ('left unchanged' if h is None else fmt(h)[:40])
            ln = finals.get('len')
            role = 'push' if nid in get_roles(ctx).push else ('move' if (nid in get_roles(ctx).move or nid in get_roles(ctx).move_prims) else 'remove')
            if ln is not None:
                from .rules_flow import lin
                f = lin(ln)
                d = sum(s_ * a[1] for s_, a in f if isinstance(a, tuple) and a[0] == 'c' and isinstance(a[1], int))
                want = {'push': 1, 'remove': -1, 'move': 0}[role]
                if d != want:
                    bad = (bad + '; ' if bad else '') + 'len changes by %+d (expected %+d)' % (d, want)
            elif role in ('push', 'remove') and (h is not None or t_ is not None):
                # a path that relinks head/tail of a push/remove operation must adjust len
                bad = (bad + '; ' if bad else '') + 'len is not adjusted'
            r.instance(function=nid, head=fmt(h)[:40] if h is not None else None, tail=fmt(t_)[:40] if t_ is not None else None, len=fmt(ln)[:40] if ln is not None else None, ok=not bad)
            if bad:
                r.violate(nid, 'list-shape', bad.split(' ')[0] + '-' + role, 'a path of %s breaks the list shape: %s (conditions: %s)' % (nid, bad, [fmt(c)[:40] + '==' + str(v) for c, v in p.conds][:5]),
                          where=ctx.where(nid), expected='head == None <=> tail == None; len +-1')
    r.require_floor(8, 'list-operation paths')
    return r


# release builds carry no overflow asserts: the arithmetic inventory is a statement about the checked (dev) program
rule_inv_arith.skip_configs = ('release',)


# ---------------------------------------------------------------------------------------------------------------------------------
# DEQUE-links: the inductive step of list well-formedness
_PTR_VIEWS = ('as_ptr', 'as_ref', 'as_mut', 'from', 'new', 'new_unchecked', 'from_raw', 'into_raw', 'cast', 'deref', 'deref_mut', 'leak',
              'as_non_null_ptr', 'into_non_null', 'from_ref', 'from_mut', 'borrow', 'borrow_mut', 'as_mut_ptr', 'cast_mut', 'cast_const', 'clone')
_LINKS = ('next', 'prev', 'head', 'tail')


def _pcore(t):
    """A term modulo pointer views: NonNull / Box / raw-pointer conversions of a node pointer denote the node."""
    if not isinstance(t, tuple) or not t:
        return t
    if t[0] == 'call' and t[2] and str(t[1]).split('::')[-1] in _PTR_VIEWS and ('ptr' in str(t[1]) or 'Box' in str(t[1]) or 'boxed' in str(t[1]) or
                                                                                  'convert' in str(t[1]) or 'ops::' in str(t[1]) or 'clone' in str(t[1])):
        return _pcore(t[2][0])
    if t[0] == 'fld' and t[2] in ('0', 0, 'pointer'):
        return _pcore(t[1])
    if t[0] in ('overlay', 'val', 'ref'):
        return _pcore(t[1])
    if t[0] == 'payload' and t[2] == 'Some' and isinstance(t[1], tuple) and t[1] and t[1][0] == 'call' and str(t[1][1]).endswith('NonNull::new'):
        return _pcore(t[1])
    if t[0] == 'aggr':
        return ('aggr', t[1], t[2], tuple(_pcore(x) for x in t[3]))
    return tuple(_pcore(x) if isinstance(x, tuple) else x for x in t)


def rule_deque_links(ctx):
    r = RuleResult('DEQUE-links', 'inductive step of list well-formedness: assuming the doubly-linked list is well formed before the call (n.prev = Some(p) => p.next = Some(n), '
                   'n.next = Some(q) => q.prev = Some(n), prev == None exactly at the head, next == None exactly at the tail) and the node argument is a member, '
                   'the links every path of push / unlink / pop / move-to-back leaves behind are exactly those of the well-formed list after the operation: the '
                   'neighbours are joined to each other (or head / tail take the neighbour), a removed node keeps no link, a node put at the back has prev = old tail, '
                   'next = None, old tail.next = tail = the node; no other link is written')
    prog = ctx.prog
    R = get_roles(ctx)
    fns = [n for n in prog.bodies if n.startswith('common::deque::Deque::') and not n.endswith('::new') and prog.bodies[n].kind != 'closure' and any(
        e[0] == 'write' and e[1] == DEQUE and e[2] in ('head', 'tail', 'len') for e in ctx.eff.transitive(n))]
    SOME = lambda x: ('aggr', 'std::option::Option', 'Some', (x,))
    npaths = 0
    for nid in sorted(fns):
        b = prog.bodies[nid]
        role = 'push' if nid in R.push else ('move' if (nid in R.move or nid in R.move_prims or (prog.callees(nid) & (R.move | R.move_prims))) else 'remove')
        if nid in R.move_prims and nid not in R.move:
            continue        # private pointer-surgery helpers of the move role are judged inlined into it
        _callers = {(prog.bodies[c].root or c) if prog.bodies[c].kind == 'closure' else c for c in prog.callers().get(nid, ())} - {nid}
        if _callers and all(c.startswith('common::deque::') and c in fns for c in _callers):
            continue        # called by other list operations only (`unlink` under `unlink_and_drop`, a shared `set_next_of`): judged inlined into them

        def _in_module(n_, bb, d):
            # everything the list module does to the links is part of the path; the cursor bookkeeping (writes no link) stays a call
            if not (n_.startswith('common::deque::') or ' as common::deque::' in n_) or d >= 4 or bb.loops():
                return False
            w = {e[2] for e in ctx.eff.transitive(n_) if e[0] == 'write'}
            return bool(w & {'head', 'tail', 'next', 'prev', 'len'}) or not w
        sx = ctx.symex(inline_depth=4, loop_visits=2, inline_pred=_in_module, precise_heap=True)
        try:
            paths = [p for p in sx.run(nid) if not p.diverged]
        except PathLimit:
            raise CheckFailure('DEQUE-links: path limit in %s' % nid)
        D = ('param', 1)
        node_params = [i for i in range(2, b.argc + 1) if 'DeqNode' in b.locals[i]['ty']['s']]
        for p in paths:
            H, order = {}, []
            for e in p.events:
                if e[0] == 'write' and isinstance(e[1], tuple) and e[1][0] == 'fld' and e[1][2] in _LINKS:
                    loc = (_pcore(e[1][1]), e[1][2])
                    H[loc] = _pcore(e[2])
                    order.append(loc)
            if not H:
                continue
            known = {}
            for c, v in p.conds:
                if isinstance(c, tuple) and c and c[0] == 'discr':
                    known[_pcore(c[1])] = v
                # `opt.is_some()` / `opt.is_none()`: a comparison of the tag with a constant (Option has the two tags 0 and 1)
                if isinstance(c, tuple) and len(c) == 4 and c[0] == 'cmp' and c[1] in ('eq', 'ne') and isinstance(v, bool):
                    for x, y in ((c[2], c[3]), (c[3], c[2])):
                        if isinstance(x, tuple) and x[0] == 'c' and x[1] in (0, 1) and isinstance(y, tuple) and y and y[0] == 'discr':
                            holds = v if c[1] == 'eq' else not v
                            known[_pcore(y[1])] = x[1] if holds else 1 - x[1]
            eqs = [(tuple(_pcore(a) for a in c[2]), v) for c, v in p.conds if isinstance(c, tuple) and c and c[0] == 'call' and str(c[1]).endswith('ptr::eq') and len(c[2]) == 2]
            Hd, Tl = ('fld', D, 'head'), ('fld', D, 'tail')
            if role == 'push':
                N = _pcore(('param', node_params[0])) if node_params else None
            elif node_params:
                N = _pcore(('param', node_params[0]))
            else:
                N = ('payload', Hd, 'Some', 0)       # pop: the front node
            if N is None:
                raise CheckFailure('DEQUE-links: no node argument found for %s' % nid)
            P, Q = ('fld', N, 'prev'), ('fld', N, 'next')
            pay = lambda o: ('payload', o, 'Some', 0)

            def same_node(a, b_):
                if a == b_:
                    return True
                return any(v is True and ((x == a and y == b_) or (x == b_ and y == a)) for (x, y), v in eqs)

            def is_none(v):
                if v == NONE or known.get(v) == 0:
                    return True
                # well-formedness before the call: the head has no prev, the tail no next
                if v == P and role != 'push' and same_node(N, pay(Hd)):
                    return True
                if v == Q and role != 'push' and same_node(N, pay(Tl)):
                    return True
                return False

            def is_some(v):
                return known.get(v) == 1 or (isinstance(v, tuple) and v and v[0] == 'aggr' and v[2] == 'Some')

            def equiv(a, b_):
                if a == b_ or (is_none(a) and is_none(b_)):
                    return True
                # Some(payload(x)) == x when x is known to be Some
                for x, y in ((a, b_), (b_, a)):
                    if isinstance(x, tuple) and x and x[0] == 'aggr' and x[2] == 'Some' and x[3] and x[3][0] == pay(y) and is_some(y):
                        return True
                return False
            post = lambda loc: H.get(loc, ('fld', loc[0], loc[1]))
            # infeasible under the hypothesis: a member that is not the tail has a successor, one that is not the head a predecessor; a node argument
            # implies a non-empty list
            infeasible = False
            if role != 'push':
                if known.get(Q) == 0 and any(v is False and ((x == N and y == pay(Tl)) or (y == N and x == pay(Tl))) for (x, y), v in eqs):
                    infeasible = True
                if known.get(P) == 0 and any(v is False and ((x == N and y == pay(Hd)) or (y == N and x == pay(Hd))) for (x, y), v in eqs):
                    infeasible = True
                if node_params and (known.get(Hd) == 0 or known.get(Tl) == 0):
                    infeasible = True
                # the head has no predecessor, the tail no successor
                if (known.get(P) == 1 and same_node(N, pay(Hd))) or (known.get(Q) == 1 and same_node(N, pay(Tl))):
                    infeasible = True
            # the list is empty at its head iff it is empty at its tail; an operation on a member (or on the front node) implies a non-empty list
            if known.get(Hd) is not None and known.get(Tl) is not None and known.get(Hd) != known.get(Tl):
                infeasible = True
            if role != 'push' and (known.get(Hd) == 0 or known.get(Tl) == 0):
                infeasible = True
            if infeasible:
                continue
            npaths += 1
            want, undecided = {}, []
            if role in ('remove', 'move'):
                if role == 'move' and is_none(Q):
                    # the node is the tail already: nothing but `next = None` (a no-op) may be written
                    want[(N, 'next')] = NONE
                else:
                    if is_none(P):
                        want[(D, 'head')] = Q
                    elif is_some(P):
                        want[(pay(P), 'next')] = Q
                    else:
                        undecided.append('prev of the node')
                    if role == 'move':
                        if not is_some(Q):
                            undecided.append('next of the node (a member that is not the tail)')
                        if not is_some(Tl):
                            undecided.append('tail of a non-empty list')
                        want[(pay(Q), 'prev')] = P
                        want[(N, 'prev')] = Tl
                        want[(N, 'next')] = NONE
                        want[(pay(Tl), 'next')] = SOME(N)
                        want[(D, 'tail')] = SOME(N)
                    else:
                        if is_none(Q):
                            want[(D, 'tail')] = P
                        elif is_some(Q):
                            want[(pay(Q), 'prev')] = P
                        else:
                            undecided.append('next of the node')
                        want[(N, 'prev')] = NONE
                        want[(N, 'next')] = NONE
            else:
                want[(N, 'next')] = NONE
                want[(N, 'prev')] = Tl
                want[(D, 'tail')] = SOME(N)
                if is_none(Tl):
                    want[(D, 'head')] = SOME(N)
                elif is_some(Tl):
                    want[(pay(Tl), 'next')] = SOME(N)
                else:
                    undecided.append('tail')
            if undecided:
                raise CheckFailure('DEQUE-links: a path of %s writes links without having tested %s -- shape not recognised (conditions: %s)' % (
                    nid, ', '.join(undecided), [fmt(c)[:60] + "==" + str(v) for c, v in p.conds][:12]))
            bad = []
            for loc, exp in sorted(want.items(), key=str):
                got = post(loc)
                # `x := x`-style no-ops and locations left alone count as their pre-state value
                if not equiv(got, exp):
                    # Some(N) written as the pointer itself
                    bad.append('%s.%s ends as %s, expected %s' % (fmt(loc[0])[:40], loc[1], fmt(got)[:50], fmt(exp)[:50]))
            for loc in order:
                if loc not in want and not equiv(H[loc], ('fld', loc[0], loc[1])):
                    # an alias of an expected location (the successor of the node may be the tail, its predecessor the head)?
                    bad.append('unexpected link write %s.%s := %s' % (fmt(loc[0])[:40], loc[1], fmt(H[loc])[:50]))
            r.instance(function=nid, role=role, links_written=len(H), ok=not bad)
            if bad:
                r.violate(nid, 'list-links', role + '-' + bad[0].split(' ')[0].split('.')[-1], 'a path of %s does not leave the links of a well-formed list behind: %s (conditions: %s)' % (
                    nid, '; '.join(bad[:3]), [fmt(c)[:40] + '==' + str(v) for c, v in p.conds][:6]),
                    where=ctx.where(nid), expected='unlink: prev.next (or head) = next, next.prev (or tail) = prev, node.prev = node.next = None; push / move-to-back: '
                    'node.prev = old tail, node.next = None, old tail.next (or head) = tail = node')
    # the membership test the callers guard every unsafe list operation with (PTR-guarded-call) answers, under the same hypothesis, exactly "is a member":
    # true iff the node has a predecessor or is the head (a node outside the list has prev == None and is not the head)
    nmem = 0
    for nid in sorted(n_ for n_ in R.member if n_.startswith('common::deque::Deque::') and prog.bodies[n_].kind != 'closure'):
        b = prog.bodies[nid]
        node_params = [i for i in range(2, b.argc + 1) if 'DeqNode' in b.locals[i]['ty']['s']]
        if not node_params:
            continue
        N, D = _pcore(('param', node_params[0])), ('param', 1)
        P, Hd = ('fld', N, 'prev'), ('fld', D, 'head')

        def _mod_pure(n_, bb, d):
            return bool((n_.startswith('common::deque::') or ' as common::deque::' in n_) and d < 3 and not bb.loops() and
                        not any(e[0] == 'write' for e in ctx.eff.transitive(n_)))
        try:
            mpaths = [p for p in ctx.symex(inline_depth=3, loop_visits=2, inline_pred=_mod_pure).run(nid) if not p.diverged]
        except PathLimit:
            raise CheckFailure('DEQUE-links: path limit in %s' % nid)
        for p in mpaths:
            known = {}
            for c, v in p.conds:
                if isinstance(c, tuple) and c and c[0] == 'discr':
                    known[_pcore(c[1])] = v
                if isinstance(c, tuple) and len(c) == 4 and c[0] == 'cmp' and c[1] in ('eq', 'ne') and isinstance(v, bool):
                    for x, y in ((c[2], c[3]), (c[3], c[2])):
                        if isinstance(x, tuple) and x[0] == 'c' and x[1] in (0, 1) and isinstance(y, tuple) and y and y[0] == 'discr':
                            holds = v if c[1] == 'eq' else not v
                            known[_pcore(y[1])] = x[1] if holds else 1 - x[1]
            def _is_head_eq(t):
                if not (isinstance(t, tuple) and t and t[0] == 'call' and str(t[1]).endswith('ptr::eq') and len(t[2]) == 2):
                    return False
                a_, b_ = _pcore(t[2][0]), _pcore(t[2][1])
                return {a_, b_} == {N, ('payload', Hd, 'Some', 0)}
            head_eq = None
            for c, v in p.conds:
                if _is_head_eq(c) and isinstance(v, bool):
                    head_eq = v
            prev, head = known.get(P), known.get(Hd)
            ret = p.ret
            if ret == ('c', True):
                ok = prev == 1 or head_eq is True
            elif ret == ('c', False):
                ok = prev == 0 and (head == 0 or head_eq is False)
            else:
                ok = prev == 0 and _is_head_eq(ret)       # "no predecessor: a member iff it is the head"
            nmem += 1
            r.instance(function=nid, clause='membership-test', returns=fmt(ret)[:40], prev={0: 'None', 1: 'Some'}.get(prev), head_eq=head_eq, ok=ok)
            if not ok:
                r.violate(nid, 'list-links', 'membership-test', 'a path of the membership test %s returns %s with prev %s / is-head %s: under the list invariant a node is a member '
                          'iff it has a predecessor or is the head; any other answer lets a guarded caller skip the unlink of a member (a leaked node, a stale LRU position) or '
                          'unlink a node that is not in the list' % (nid, fmt(ret)[:40], {0: 'None', 1: 'Some'}.get(prev, 'untested'), head_eq), where=ctx.where(nid),
                          expected='node.prev.is_some() || self.is_head(node)')
    if nmem < 2:
        raise CheckFailure('DEQUE-links: the membership test of the list (bool, reads DeqNode.prev) was not found or has fewer than two paths')
    r.notes.append('%d link-writing paths of %d list operations judged against the post-state of a well-formed list' % (npaths, len(fns)))
    r.require_floor(6, 'link-writing list-operation paths')
    return r
