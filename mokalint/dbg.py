"""Debug helper: fresh context for /repo."""
from . import extract
from .core import Context

def fresh(cfg='default', tier='quick'):
    facts, dt = extract.extract('/repo', 'mini_moka', cfg)
    return Context(facts, tier=tier)
