"""Debug helper: fresh context for /repo."""
from . import extract
from .core import Context

def fresh(cfg='default', tier='quick'):
    import os
    facts, dt = extract.extract(os.environ.get('VERIF_REPO', '/repo'), 'mini_moka', cfg)
    return Context(facts, tier=tier)
