"""Effect rules: PURE-observers (C15, C06), AUTH-sketch-record / PAIR-readop-once / CONST-masks (C14),
removal-cause classification shared with C03/C07."""
from .core import RuleResult, CheckFailure
from .roles import CHAN_RECV, recv_types
from .roles import named, ts_name_kind, sync_ts_fields
from .kernel import norm
from .roles import (get_roles, HASHMAP_MUT, HASHMAP_REMOVE, HASHMAP_INSERT, DASHMAP_MUT, DASHMAP_REMOVE, CHAN_SEND, SKETCH)
from .symex import fmt, subterms, PathLimit

SYNC_TS = [('common::concurrent::entry_info::EntryInfo', 'last_accessed'), ('common::concurrent::entry_info::EntryInfo', 'last_modified')]
UNSYNC_TS = [('unsync::KeyDate', 'timestamp'), ('unsync::KeyHashDate', 'timestamp')]
SYNC_FLAGS = [('common::concurrent::entry_info::EntryInfo', 'is_admitted'), ('common::concurrent::entry_info::EntryInfo', 'is_dirty'),
              ('common::concurrent::entry_info::EntryInfo', 'policy_weight'), ('sync::base_cache::Inner', 'valid_after'),
              ('sync::base_cache::Inner', 'entry_count'), ('sync::base_cache::Inner', 'weighted_size'),
              ('sync::base_cache::Inner', 'frequency_sketch_enabled')]
UNSYNC_FLAGS = [('unsync::EntryInfo', 'policy_weight'), ('unsync::cache::Cache', 'frequency_sketch_enabled'),
                ('unsync::cache::Cache', 'max_capacity'), ('unsync::cache::Cache', 'time_to_live'), ('unsync::cache::Cache', 'time_to_idle')]

SYNC_OBSERVERS = ['sync::cache::Cache::contains_key', 'sync::cache::Cache::iter', '<sync::iter::Iter as std::iter::Iterator>::next',
                  'sync::mapref::EntryRef::key', 'sync::mapref::EntryRef::value', 'sync::mapref::EntryRef::pair',
                  '<sync::mapref::EntryRef as std::ops::Deref>::deref', '<&sync::cache::Cache as std::iter::IntoIterator>::into_iter',
                  'sync::cache::Cache::policy', 'sync::cache::Cache::entry_count', 'sync::cache::Cache::weighted_size',
                  '<sync::cache::Cache as std::fmt::Debug>::fmt']
UNSYNC_OBSERVERS = ['unsync::cache::Cache::contains_key', 'unsync::cache::Cache::iter', '<unsync::iter::Iter as std::iter::Iterator>::next',
                    'unsync::cache::Cache::policy', 'unsync::cache::Cache::entry_count', 'unsync::cache::Cache::weighted_size',
                    '<unsync::cache::Cache as std::fmt::Debug>::fmt']


def is_deadline(t):
    return any(isinstance(x, tuple) and x and x[0] == 'call' and str(x[1]).endswith('::checked_add') for x in subterms(t))


def expiry_atom(c, v):
    """Is (cond term == value) a statement 'this entry is expired / invalidated'?"""
    if not (isinstance(c, tuple) and c and c[0] == 'cmp'):
        return False
    op, a, b = c[1], c[2], c[3]
    if op == 'le' and is_deadline(a) and v is True:
        return True
    if op == 'lt' and is_deadline(b) and v is False:   # !(now < deadline)
        return True
    # watermark: ts < valid_after
    if op == 'lt' and v is True and any(isinstance(x, tuple) and x[0] == 'fld' and x[2] == 'valid_after' for x in subterms(b)):
        return True
    if op == 'lt' and v is True and _is_ts(a) and not is_deadline(b):
        # strict comparison of an entry timestamp against an Option<Instant> parameter (the watermark role)
        return any(isinstance(x, tuple) and x[0] in ('param', 'payload') for x in subterms(b))
    return False


def _is_ts(t):
    return any(isinstance(x, tuple) and x and x[0] == 'call' and str(x[1]).split('::')[-1] in ('last_accessed', 'last_modified')
               for x in subterms(t)) or any(isinstance(x, tuple) and x and x[0] == 'fld' and (x[2] == 'timestamp' or ts_name_kind(x[2]))
                                           for x in subterms(t))


def removal_causes(ctx, nid):
    """For a function containing map-removal call sites: {callee -> set(causes)} where a cause is
    'expiry' (an expiry/watermark atom holds on the path), 'capacity' (inside the over-capacity loop
    guard), 'identity' (remove_if guarded by identity), or 'unconditional'."""
    key = ('causes', nid)
    if key in ctx.cache:
        return ctx.cache[key]
    sx = ctx.symex(inline_depth=4, loop_visits=2)
    try:
        paths = sx.run(nid)
    except PathLimit:
        raise CheckFailure('path limit exceeded while classifying removal causes in %s' % nid)
    out = {}
    removal = HASHMAP_REMOVE | DASHMAP_REMOVE
    for p in paths:
        for i, e in enumerate(p.events):
            if e[0] == 'call' and e[1] in removal:
                causes = out.setdefault((e[1], e[3]), set())
                if any(expiry_atom(c, v) for c, v in p.conds):
                    causes.add('expiry')
                else:
                    causes.add('no-expiry-atom')
    ctx.cache[key] = out
    return out


def rule_pure_observers(ctx, only_timestamps=False):
    if only_timestamps:
        r = RuleResult('PURE-observers(timestamps)', 'contains_key / iter / Iter::next / EntryRef accessors have no may-effect on the '
                       'last-accessed / last-modified stores (EntryInfo.last_accessed/last_modified, KeyDate/KeyHashDate.timestamp), '
                       'send no ReadOp and reach no maintenance')
    else:
        r = RuleResult('PURE-observers', 'contains_key / iter / Iter::next / EntryRef / policy / counters getters have no may-effect '
                       'on popularity, recency, timestamps, admission flags, queues or (sync) the map; unsync contains_key may remove '
                       'map entries only with cause expiry')
    prog, eff = ctx.prog, ctx.eff
    R = get_roles(ctx)
    has_sync = any(n.startswith('sync::') for n in prog.bodies)
    observers = [(o, 'unsync') for o in UNSYNC_OBSERVERS] + ([(o, 'sync') for o in SYNC_OBSERVERS] if has_sync else [])
    for o, kind in observers:
        b = ctx.body(o)
        reach = prog.reachable_from([o])
        tr = set()
        for x in reach:
            tr |= eff.direct.get(x, set())
        bad = []
        # F1 sketch
        for e in tr:
            if e[0] == 'write' and e[1] == SKETCH:
                bad.append(('sketch-write', 'FrequencySketch.%s' % e[2], e))
        # F2 timestamps / F4 flags
        sync_ts = sync_ts_fields(ctx) or SYNC_TS
        for (adt, f) in (sync_ts + SYNC_FLAGS if kind == 'sync' else UNSYNC_TS + UNSYNC_FLAGS):
            if ('write', adt, f) in tr:
                bad.append(('state-write', '%s.%s' % (adt.split('::')[-1], f), ('write', adt, f)))
        # F2b any other state of the cache object itself: an observer may write nothing of it but what an expiry removal writes (the store, the
        # queues, the two counters) -- a timer, a latch or a cached value written by an observer is state a later operation branches on
        # (what the expiry step itself writes is the reference, whatever the fields are called: `usage`, `counters`, ...)
        allowed_f = {'cache', 'deques', 'entry_count', 'weighted_size'}
        try:
            exp_role = named(ctx, 'unsync.evict_expired' if kind == 'unsync' else 'sync.evict_expired')
            for x_ in (prog.reachable_from([exp_role]) | {exp_role}) if exp_role in prog.bodies else ():
                allowed_f |= {e_[2] for e_ in eff.direct.get(x_, ()) if e_[0] == 'write'}
        except Exception:
            pass
        for e in tr:
            # (the concurrent observers take `&self`: a plain field write is impossible there, its shared cells are covered by F2 / F4 / F5)
            if e[0] == 'write' and kind == 'unsync' and e[1] == 'unsync::cache::Cache' and e[2] not in allowed_f and not only_timestamps:
                bad.append(('state-write', '%s.%s' % (e[1].split('::')[-1], e[2]), e))
        # F3 recency
        for role, fns in (('move-to-back', R.move), ('push-back', R.push)):
            hit = reach & fns
            if hit:
                bad.append(('recency', role, None))
        # F5 queues
        for e in tr:
            if e[0] == 'call' and e[1] in CHAN_SEND:
                bad.append(('queue-send', e[1].split('::')[-1], e))
            if e[0] == 'construct' and e[1] in ('common::concurrent::ReadOp', 'common::concurrent::WriteOp'):
                bad.append(('op-construct', '%s::%s' % (e[1].split('::')[-1], e[2]), e))
        # F6 map / maintenance
        if kind == 'sync':
            for e in tr:
                if e[0] == 'call' and e[1] in DASHMAP_MUT:
                    bad.append(('map-mutation', e[1].split('::')[-1], e))
            if reach & (R.maintenance | R.try_sync):
                bad.append(('maintenance', 'reaches InnerSync::sync', None))
        else:
            for e in tr:
                if e[0] == 'call' and e[1] in (HASHMAP_MUT - HASHMAP_REMOVE - {'std::collections::HashMap::get_mut'}):
                    bad.append(('map-mutation', e[1].split('::')[-1], e))
            # removals: only with cause expiry
            for x in sorted(reach) if not only_timestamps else ():
                if R.ext_calls[x] & HASHMAP_REMOVE:
                    causes = removal_causes(ctx, x)
                    for (callee, line), cs in sorted(causes.items(), key=str):
                        ok = cs == {'expiry'}
                        r.instance(observer=o, removal_in=x, callee=callee, causes=sorted(cs), allowed=ok)
                        if not ok:
                            path = prog.call_path(o, lambda y: y == x)
                            from .roles import _FALLBACK, named as _nm
                            xf = x.split('::{closure')[0]   # a removal moved into a closure is still the enclosing function's removal
                            alias = next((k for k in _FALLBACK if _nm(ctx, k) == xf), xf)
                            r.violate(o, 'map-removal-not-expiry', alias, 'observer %s can remove a map entry that is not expired (in %s): '
                                      'a later lookup/iteration can observe the difference' % (o.split('::')[-1], x),
                                      where=ctx.where(x, line), path=path, expected='removals reachable from an observer are dominated by the expiry predicate')
        # F7 shared cells: an observer only LOADS from atomics and takes READ locks.  A flag, hint or counter it stores into a shared cell
        # (`purge_requested.store(true)`, a `Mutex`-protected hint) is state that a later insert / maintenance run branches on
        _CELL_W = ('store', 'swap', 'fetch_add', 'fetch_sub', 'fetch_or', 'fetch_and', 'fetch_xor', 'fetch_nand', 'fetch_max', 'fetch_min', 'fetch_update',
                   'compare_exchange', 'compare_exchange_weak', 'compare_and_swap', 'set', 'replace', 'take', 'borrow_mut', 'get_mut', 'write', 'try_write',
                   'lock', 'try_lock')
        for e in tr:
            if e[0] == 'call' and e[1].split('::')[-1] in _CELL_W and any(w in e[1] for w in ('::atomic::', 'AtomicCell', '::RwLock::', '::Mutex::', '::cell::Cell::',
                                                                                               '::cell::RefCell::', '::OnceLock::', '::OnceCell::')):
                bad.append(('shared-cell-write', '::'.join(e[1].split('::')[-2:]), e))
        if only_timestamps:
            ts_names = {'%s.%s' % (a.split('::')[-1], f) for a, f in (sync_ts_fields(ctx) or SYNC_TS) + UNSYNC_TS}
            bad = [x for x in bad if (x[0] == 'state-write' and x[1] in ts_names) or x[0] in ('queue-send', 'op-construct', 'maintenance')]
        r.instance(observer=o, kind=kind, reachable_functions=len(reach), forbidden_effects=[(k, d) for k, d, _ in bad])
        seen = set()
        for k, d, e in bad:
            if (k, d) in seen:
                continue
            seen.add((k, d))
            # locate: first function in reach having the effect / role
            if e is not None:
                holder = sorted(x for x in reach if e in eff.direct.get(x, ()))
                site = holder[0] if holder else o
            else:
                tgt = {'move-to-back': R.move, 'push-back': R.push}.get(d, R.maintenance | R.try_sync)
                site = sorted(reach & tgt)[0]
            path = prog.call_path(o, lambda y: y == site) or [o]
            r.violate(o, k, d, 'observer %s may %s (%s) via %s' % (o, k, d, ' -> '.join(x.split('::')[-1] for x in path)),
                      where=ctx.where(site), path=path, expected='no such effect reachable from a pure observation')
    # (unsync) the catch-up work an observer does on entry is the SAME deterministic step every other operation starts with: an extra
    # contains_key then only does earlier what the next operation would have done anyway.  Sibling check against get: same steps, same order.
    if not only_timestamps:
        from .roles import named as _nm2
        steps = {_nm2(ctx, 'unsync.evict_expired'): 'expire', _nm2(ctx, 'unsync.evict_lru'): 'evict'}

        def prologue(fn):
            seqs = set()
            try:
                ps = ctx.symex(inline_depth=3, loop_visits=2, inline_pred=lambda n_, bb, d: False if n_ in steps else None).run(fn)
            except PathLimit:
                raise CheckFailure('PURE-observers: path limit in %s' % fn)
            for p in ps:
                if p.diverged:
                    continue
                seq = []
                for e in p.events:
                    if e[0] == 'call' and e[1] in steps:
                        seq.append(steps[e[1]])
                    elif e[0] == 'call' and str(e[1]).startswith('std::collections::HashMap::'):
                        break
                seqs.add(tuple(seq))
            return seqs
        obs, ref = 'unsync::cache::Cache::contains_key', 'unsync::cache::Cache::get'
        if obs in prog.bodies and ref in prog.bodies:
            a_, b_ = prologue(obs), prologue(ref)
            r.instance(observer=obs, entry_steps=sorted(a_), same_as=ref, reference_steps=sorted(b_), ok=a_ == b_)
            if a_ != b_:
                r.violate(obs, 'observer-prologue-differs', 'order', 'the catch-up steps contains_key runs on entry %s differ from those of get %s: an inserted contains_key makes a different '
                          'expiry / eviction decision than the operation that would otherwise have run them next' % (sorted(a_), sorted(b_)), where=ctx.where(obs),
                          expected='the same prologue as get: evict_expired_if_needed(); evict_lru_entries();')
    r.require_floor(len(observers), 'observer entry points')
    r.assumptions.append('user callbacks (Hash/Eq/Clone/Debug, weigher) have no handle on cache internals')
    return r


# ------------------------------------------------------------------------------------------------ C14


def rule_auth_sketch_record(ctx):
    r = RuleResult('AUTH-sketch-record', 'the sketch increment role is reachable only from get (unsync) and from the application of '
                   'ReadOps (sync maintenance); ReadOps are constructed only by get; no other public entry point reaches an increment '
                   'except through maintenance applying queued reads')
    prog, eff = ctx.prog, ctx.eff
    R = get_roles(ctx)
    inc = R.sketch_increment
    callers = prog.callers()
    # direct callers of the increment role from outside the sketch module
    direct = set()
    for i in inc:
        for c in callers.get(i, ()):
            if c not in R.sketch_write:
                direct.add(c)
    has_sync = any(n.startswith('sync::') for n in prog.bodies)
    for c in sorted(direct):
        b = prog.bodies[c]
        if c == 'unsync::cache::Cache::get':
            ok, why = True, 'unsync get records the lookup'
        elif c.startswith('sync::'):
            # must consume ReadOps: calls Receiver::try_recv
            ok = bool(recv_types(ctx, c))
            why = 'applies queued ReadOps' if ok else 'increments the sketch without consuming a ReadOp'
        else:
            ok, why = False, 'unexpected caller of the sketch increment'
        r.instance(caller=c, allowed=ok, why=why)
        if not ok:
            r.violate(c, 'sketch-increment', 'FrequencySketch::increment', '%s: %s -- only get calls may be recorded' % (c, why),
                      where=ctx.where(c), expected='increment only in unsync::get and in the ReadOp consumer')
    if has_sync:
        # in the ReadOp consumer every increment must be fed by a hash taken from a received ReadOp, and the function
        # must hold no other source (e.g. WriteOp)
        for c in sorted(direct):
            if not c.startswith('sync::'):
                continue
            b = prog.bodies[c]
            for bi, t in b.calls():
                tg, ext, _ = prog.call_targets(b, t)
                if set(tg) & inc:
                    leaves = ctx.orig.of_operand(b, t['args'][1]) if len(t['args']) > 1 else {}
                    from_recv = any(l[0] in ('call', 'via') and (str(l[1]) in CHAN_RECV or str(l[1]) == 'std::iter::from_fn') for l in leaves)
                    recv_ty = recv_types(ctx, c)
                    ok = from_recv and 'ReadOp' in recv_ty and 'WriteOp' not in recv_ty
                    r.instance(function=c, increment_line=t.get('line'), hash_from_try_recv=from_recv, channel=recv_ty[:80], ok=ok)
                    if not ok:
                        r.violate(c, 'sketch-increment-source', 'hash', 'sketch increment in %s is not fed by a received ReadOp' % c,
                                  where=ctx.where(c, t.get('line')))
        # ReadOp construction sites
        lookup_ = named(ctx, 'sync.get_lookup')

        def only_via_lookup(fn, depth=0):
            # a recording helper (`record_hit` / `record_miss`) that nothing but the lookup calls
            if fn == lookup_:
                return True
            cs = {(prog.bodies[c].root if prog.bodies[c].kind == 'closure' and prog.bodies[c].root else c) for c in prog.callers().get(fn, ())} - {fn}
            return bool(cs) and depth < 3 and all(only_via_lookup(c, depth + 1) for c in cs)
        for variant in ('Hit', 'Miss'):
            e = ('construct', 'common::concurrent::ReadOp', variant)
            holders = eff.who_has(e)
            for h in holders:
                root = prog.bodies[h].root or h
                ok = root == lookup_ or only_via_lookup(root)
                r.instance(readop=variant, constructed_in=h, allowed=ok)
                if not ok:
                    r.violate(h, 'readop-construct', variant, 'ReadOp::%s constructed outside get' % variant, where=ctx.where(h))
        # who can reach the ReadOp-constructing function: only get
        pubs = [p for p in prog.public_api() if p.startswith('sync::cache::Cache::') or p.startswith('<sync::') or p.startswith('<&sync::')]
        getters = {p for p in pubs if named(ctx, 'sync.get_lookup') in prog.reachable_from([p])}
        allowed = {'sync::cache::Cache::get', 'sync::cache::Cache::get_if_present'}
        for g in sorted(getters):
            ok = g in allowed
            r.instance(public_entry=g, reaches='get_with_hash', allowed=ok)
            if not ok:
                r.violate(g, 'records-read', 'get_with_hash', 'public entry %s reaches the read-recording lookup' % g, where=ctx.where(g))
    # unsync: which public entries reach increment
    for p in prog.public_api():
        if not (p.startswith('unsync::cache::Cache::') or p.startswith('<unsync::')):
            continue
        if prog.reachable_from([p]) & inc:
            ok = p == 'unsync::cache::Cache::get'
            r.instance(public_entry=p, reaches='sketch increment', allowed=ok)
            if not ok:
                path = prog.call_path(p, lambda y: y in inc)
                r.violate(p, 'records-read', 'sketch-increment', 'public entry %s reaches the sketch increment: only get may be recorded' % p,
                          where=ctx.where(p), path=path)
    r.require_floor(4 if has_sync else 2, 'increment callers / ReadOp construction sites / entries')
    return r


def rule_pair_readop_once(ctx):
    r = RuleResult('PAIR-readop-once', 'every normal path through a get records the lookup exactly once (one ReadOp sent / one sketch '
                   'increment), hit or miss')
    prog = ctx.prog
    R = get_roles(ctx)
    targets = []
    if ctx.has_sync:
        targets.append((named(ctx, 'sync.get_lookup'), 'send'))
    targets.append(('unsync::cache::Cache::get', 'increment'))
    for nid, what in targets:
        ctx.body(nid)
        def _pred(n, b, d, _what=what):
            if n in R.sketch_write or 'evict' in n:
                return False
            # helpers that cannot lead to a recording and relink the deques are irrelevant here (the recency bookkeeping of a hit)
            reach_ = ctx.prog.reachable_from([n]) | {n}
            if _what == 'send':
                leads = any(R.ext_calls.get(m_, set()) & set(CHAN_SEND) for m_ in reach_)
            else:
                leads = bool(reach_ & R.sketch_increment)
            if not leads and (reach_ & (R.move | R.unlink | R.push)):
                return False
            return None
        sx = ctx.symex(inline_depth=3, inline_pred=_pred)
        paths = [p for p in sx.run(nid) if not p.diverged]
        for p in paths:
            if what == 'send':
                n = sum(1 for e in p.events if e[0] == 'call' and e[1] in CHAN_SEND)
            else:
                n = sum(1 for e in p.events if e[0] == 'call' and e[1] in R.sketch_increment)
            r.instance(function=nid, returns=fmt(p.ret)[:60], records=n)
            if n != 1:
                r.violate(nid, 'record-count', str(n), 'a path through %s records the lookup %d times (expected exactly once)' % (nid, n),
                          where=ctx.where(nid), path=[fmt(c) + ' == ' + str(v) for c, v in p.conds][:12])
            elif what == 'send':
                # ... and as what it was: a hit (Some returned) as ReadOp::Hit carrying the entry that was found -- the maintenance refreshes recency and the
                # idle deadline from it -- a miss as ReadOp::Miss
                sent = [e for e in p.events if e[0] == 'call' and e[1] in CHAN_SEND][0]
                ops = [x for a in sent[2] for x in subterms(a) if isinstance(x, tuple) and x and x[0] == 'aggr' and str(x[1]).endswith('::ReadOp')]
                kind_ = ops[0][2] if ops else None
                is_hit = isinstance(p.ret, tuple) and p.ret and p.ret[0] == 'aggr' and p.ret[2] == 'Some'
                is_miss = p.ret == ('aggr', 'std::option::Option', 'None', ())
                carries = bool(ops) and kind_ == 'Hit' and any(isinstance(y, tuple) and y and y[0] == 'call' and str(y[1]).endswith(('DashMap::get', 'DashMap::get_mut')) for y in subterms(ops[0]))
                ok = (is_hit and carries) or (is_miss and kind_ == 'Miss') or not (is_hit or is_miss)
                r.instance(function=nid, outcome='hit' if is_hit else ('miss' if is_miss else '?'), recorded_as=kind_, carries_found_entry=carries if is_hit else None, ok=ok)
                if not ok:
                    r.violate(nid, 'record-kind', '%s-as-%s' % ('hit' if is_hit else 'miss', kind_), 'a %s path of %s records the lookup as ReadOp::%s%s: the maintenance step does not refresh the '
                              'recency / idle time of the entry that was read' % ('hit' if is_hit else 'miss', nid, kind_, '' if (not is_hit or carries) else ' without the entry that was found'),
                              where=ctx.where(nid, sent[3]), path=[fmt(c)[:60] + ' == ' + str(v) for c, v in p.conds][:8], expected='hit => ReadOp::Hit(hash, entry, now); miss => ReadOp::Miss(hash)')
    r.require_floor(4, 'paths through get')
    return r


def rule_const_masks(ctx):
    r = RuleResult('CONST-masks', 'compiler-evaluated sketch constants: RESET_MASK = 0x7777.., ONE_MASK = 0x1111.., nibble mask 0xF, '
                   'sketch_capacity lower clamp 128: necessary for "estimate <= 15" and exact floor-halving')
    C = ctx.prog.consts
    exp = {'common::frequency_sketch::RESET_MASK': 0x7777777777777777, 'common::frequency_sketch::ONE_MASK': 0x1111111111111111}
    for k, v in exp.items():
        c = C.get(k)
        if c is None:
            raise CheckFailure('anchor missing: %s' % k)
        got = c.get('val')
        if got is not None and got < 0:
            got += 1 << 64
        ok = got == v
        r.instance(constant=k, value=hex(got) if got is not None else None, expected=hex(v), ok=ok)
        if not ok:
            r.violate(k, 'const-value', k.split('::')[-1], '%s is %s, expected %s' % (k, got, hex(v)), expected=hex(v))
    # literal masks / clamp used in the sketch code
    def cval(o):
        # a literal, or a named constant of the crate (`COUNTER_MAX`)
        if o.get('val') is not None:
            return o.get('val')
        c_ = C.get(norm(str(o.get('item') or ''))) if o.get('k') == 'const' else None
        return c_.get('val') if c_ else None

    def with_module_helpers(b_):
        # the function, its closures and the helpers of the sketch module it reaches (the expression may be extracted: `count_at`, `counter_offset`)
        ns = [b_.nid] + sorted(n_ for n_ in ctx.prog.reachable_from([b_.nid]) if n_ != b_.nid and n_.lstrip('<').startswith('common::frequency_sketch::'))
        return [ctx.prog.bodies[n_] for n_ in ns if n_ in ctx.prog.bodies]
    b = ctx.body('common::frequency_sketch::FrequencySketch::frequency')
    bodies = with_module_helpers(b)
    consts = [s['rv'] for bb in bodies for _, _, s in bb.stmts() if s['st'] == 'assign' and s['rv']['rv'] == 'binop' and s['rv']['op'] == 'BitAnd']
    nib = [c for c in consts if cval(c['b']) == 15 or cval(c['a']) == 15]
    # (`x % 16` on an unsigned value is the same mask)
    nib += [s['rv'] for bb in bodies for _, _, s in bb.stmts() if s['st'] == 'assign' and s['rv']['rv'] == 'binop' and s['rv']['op'] == 'Rem' and cval(s['rv']['b']) == 16]
    # (`(slot & (0xF << offset)) >> offset` isolates the same four bits: the mask is built like the saturation mask, the result shifted down)
    for bb in bodies:
        shl15 = {s_['pl']['l'] for _, _, s_ in bb.stmts() if s_['st'] == 'assign' and s_['rv']['rv'] == 'binop' and s_['rv']['op'].startswith('Shl') and cval(s_['rv']['a']) == 15
                 and not s_['pl'].get('p')}
        has_shr = any(s_['st'] == 'assign' and s_['rv']['rv'] == 'binop' and s_['rv']['op'].startswith('Shr') for _, _, s_ in bb.stmts())
        if shl15 and has_shr:
            def _loc(o_):
                return (o_.get('pl') or {}).get('l') if o_.get('k') in ('copy', 'move') and not (o_.get('pl') or {}).get('p') else None
            # (the mask may pass through the overflow-check tuple: follow one `use` of a field of it)
            derived = set(shl15)
            for _ in range(3):
                for _, _, s_ in bb.stmts():
                    if s_['st'] == 'assign' and s_['rv']['rv'] == 'use' and (s_['rv']['op'].get('pl') or {}).get('l') in derived and not s_['pl'].get('p'):
                        derived.add(s_['pl']['l'])
            nib += [c for c in [s_['rv'] for _, _, s_ in bb.stmts() if s_['st'] == 'assign' and s_['rv']['rv'] == 'binop' and s_['rv']['op'] == 'BitAnd']
                    if _loc(c['a']) in derived or _loc(c['b']) in derived]
    r.instance(function=b.nid, nibble_mask_sites=len(nib))
    if not nib:
        r.violate(b.nid, 'nibble-mask', '0xF', 'frequency() does not mask the counter with 0xF', where=ctx.where(b.nid))
    b2 = ctx.body('common::frequency_sketch::FrequencySketch::increment_at')
    m15 = [s for bb in with_module_helpers(b2) for _, _, s in bb.stmts() if s['st'] == 'assign' and s['rv']['rv'] == 'binop' and s['rv']['op'].startswith('Shl') and cval(s['rv']['a']) == 15]
    r.instance(function=b2.nid, saturation_mask_sites=len(m15))
    if not m15:
        r.violate(b2.nid, 'saturation-mask', '0xF<<offset', 'increment_at() does not build the 0xF saturation mask', where=ctx.where(b2.nid))
    # the lower clamp of the sketch capacity: wherever the conversion lives (a free function of `common`, a method of the sketch)
    clampers = [bb for n_, bb in sorted(ctx.prog.bodies.items()) if bb.kind != 'closure' and n_.lstrip('<').startswith('common::') and
                any(a.get('val') == 128 for _, t in bb.calls() if norm(str(t.get('callee') or '')).split('::')[-1] == 'max' for a in t['args'])]
    b3 = ctx.prog.bodies.get('common::sketch_capacity') or (clampers[0] if clampers else ctx.body('common::sketch_capacity'))
    has128 = any(a.get('val') == 128 for _, t in b3.calls() for a in t['args'])
    r.instance(function=b3.nid, clamp_128=has128)
    if not has128:
        r.violate(b3.nid, 'clamp', '128', 'sketch_capacity() lower clamp 128 missing', where=ctx.where(b3.nid))
    return r


def rule_pure_observers_ts(ctx):
    return rule_pure_observers(ctx, only_timestamps=True)


def rule_sketch_structure(ctx):
    r = RuleResult('SKETCH-structure', 'structural necessary conditions of the estimator clauses: the aging step visits the WHOLE table (iter_mut on the table itself, no '
                   'sub-slice) and rewrites every slot as (slot >> 1) & RESET_MASK; the table is (re)allocated only when it must grow and only while the '
                   'estimator is not yet enabled (the enable test is false once frequency_sketch_enabled is set), so recorded counts are never wiped '
                   'except by aging; frequency()/increment() use depth 4')
    prog = ctx.prog
    SK = 'common::frequency_sketch::FrequencySketch'
    reset = ctx.body(SK + '::reset')
    # the aging step with the helpers of its module inlined (the table pass may live in a helper)
    def _mod(n_, bb, d):
        return True if (n_.startswith(('common::frequency_sketch::', '<common::frequency_sketch::')) and d < 3 and bb.kind != 'closure') else None
    try:
        reset_paths = ctx.symex(inline_depth=3, loop_visits=2, inline_pred=_mod).run(reset.nid)
    except PathLimit:
        raise CheckFailure('SKETCH-structure: path limit in %s' % reset.nid)
    # --- whole-table scan
    n = 0
    seen_iter = set()
    SUB = ('index', 'index_mut', 'get', 'get_mut', 'split_at', 'split_at_mut', 'take', 'skip', 'step_by', 'chunks', 'split_first', 'split_last', 'get_unchecked_mut')
    for p in reset_paths:
        for e in p.events:
            if e[0] == 'call' and str(e[1]).split('::')[-1] in ('iter_mut', 'into_iter', 'iter') and e[2] and (e[1], e[3]) not in seen_iter:
                seen_iter.add((e[1], e[3]))
                A = e[2][0]
                from_table = any(isinstance(x, tuple) and x and x[0] == 'fld' and x[1] == ('param', 1) and x[2] == 'table' for x in subterms(A))
                sliced = sorted({str(x[1]).split('::')[-1] for x in subterms(A) if isinstance(x, tuple) and x and x[0] == 'call' and str(x[1]).split('::')[-1] in SUB} |
                                {'[range]' for x in subterms(A) if isinstance(x, tuple) and x and (x[0] == 'index' or (x[0] == 'aggr' and 'ops::Range' in str(x[1])))})
                n += 1
                r.instance(function=reset.nid, iterates=e[1], over_table_field=from_table, sub_slice_ops=sliced)
                if sliced or not from_table:
                    r.violate(reset.nid, 'aging-partial-scan', ','.join(sliced) or 'not-table', 'the aging step iterates %s: not every estimate is halved' % (sliced or 'something else than self.table'),
                              where=ctx.where(reset.nid, e[3]), expected='for entry in self.table.iter_mut()')
    if n == 0:
        r.violate(reset.nid, 'aging-no-scan', 'iter_mut', 'the aging step does not iterate the table', where=ctx.where(reset.nid))
    halved = False
    for p in reset_paths:
        for e in p.events:
            if e[0] == 'write' and isinstance(e[2], tuple) and e[2][0] == 'bin' and e[2][1] == 'BitAnd':
                a, c = e[2][2], e[2][3]
                shr1 = any(isinstance(x, tuple) and x and x[0] == 'bin' and x[1] == 'Shr' and x[3] == ('c', 1) and x[2] == ctx_load(e[1]) for x in (a, c))
                mask = any(x == ('static', 'common::frequency_sketch::RESET_MASK') or x == ('c', 0x7777777777777777) for x in (a, c))
                if shr1 and mask:
                    halved = True
    # the sample counter follows the counters: size' = (size - odd/4) / 2  (with size >= sum/4 >= odd/4 invariant)
    size_ok = None
    for p in reset_paths:
        if p.diverged:
            continue
        for e in p.events:
            if e[0] == 'write' and isinstance(e[1], tuple) and e[1][0] == 'fld' and e[1][2] == 'size':
                v = e[2]
                good = isinstance(v, tuple) and v[0] == 'bin' and v[1] == 'Shr' and v[3] == ('c', 1) and isinstance(v[2], tuple) and v[2][0] == 'bin' and \
                    v[2][1] in ('Sub', 'saturating_sub') and v[2][2] == e[1] and isinstance(v[2][3], tuple) and v[2][3][0] == 'bin' and v[2][3][1] == 'Shr' and v[2][3][3] == ('c', 2)
                size_ok = good if size_ok is None else (size_ok and good)
                if not good:
                    r.violate(reset.nid, 'aging-size-formula', 'size', 'the aging step updates the sample counter as `%s`: only `(size - (odd_count >> 2)) >> 1` keeps size >= sum(counters)/4, '
                              'which is what rules out the underflow' % fmt(v)[:120], where=ctx.where(reset.nid, e[3]), expected='self.size = (self.size - (count >> 2)) >> 1')
    r.instance(function=reset.nid, size_update='(size - (count >> 2)) >> 1', found=bool(size_ok))
    # every visited slot is rewritten (no `continue` that skips the halving for some slots)
    for p in reset_paths:
        if p.diverged:
            continue
        visited = sum(1 for c, v in p.conds if isinstance(c, tuple) and c[0] == 'discr' and v == 1 and any(
            isinstance(x, tuple) and x and x[0] == 'call' and str(x[1]).endswith('::next') for x in subterms(c)))
        if any(e[0] == 'call' and str(e[1]).endswith('::for_each') for e in p.events):
            visited = sum(1 for e in p.events if e[0] == 'write' and isinstance(e[1], tuple) and e[1][0] == 'elem') or visited
        writes = sum(1 for e in p.events if e[0] == 'write' and isinstance(e[2], tuple) and e[2][0] == 'bin' and e[2][1] == 'BitAnd')
        if visited != writes and visited:
            r.violate(reset.nid, 'aging-skips-slots', '%d/%d' % (writes, visited), 'a path of the aging step visits %d slot(s) but halves %d: some estimates are not aged' % (visited, writes),
                      where=ctx.where(reset.nid), path=[fmt(c)[:60] + ' == ' + str(v) for c, v in p.conds][:6])
            break
    r.instance(function=reset.nid, slot_rewritten_as='(slot >> 1) & RESET_MASK', found=halved)
    if not halved:
        r.violate(reset.nid, 'aging-not-halving', 'slot', 'the aging step does not rewrite each slot as (slot >> 1) & RESET_MASK', where=ctx.where(reset.nid))
    # --- (re)allocation only on growth
    ens = ctx.body(SK + '::ensure_capacity')
    sx = ctx.symex(inline_depth=1)
    for p in sx.run(ens.nid):
        if p.diverged:
            continue
        wr = [e for e in p.events if e[0] == 'write' and isinstance(e[1], tuple) and e[1][0] == 'fld' and e[1][2] == 'table']
        if not wr:
            continue
        def _is_len(t_):
            return any(isinstance(x, tuple) and x and x[0] == 'len' or (isinstance(x, tuple) and x and x[0] == 'call' and str(x[1]).endswith('::len')) for x in subterms(t_))
        # `current length < new size` established: !(new <= len) or (len < new)
        grows = any(isinstance(c, tuple) and c[0] == 'cmp' and ((c[1] == 'le' and v is False and _is_len(c[3]) and not _is_len(c[2])) or
                                                                (c[1] == 'lt' and v is True and _is_len(c[2]) and not _is_len(c[3])))
                    for c, v in p.conds)
        r.instance(function=ens.nid, reallocates=True, only_when_growing=grows)
        if not grows:
            r.violate(ens.nid, 'realloc-without-growth', 'table', 'ensure_capacity replaces the table on a path where it is not established that the new size is larger: recorded counts are wiped',
                      where=ctx.where(ens.nid), expected='if self.table.len() >= table_size { return }')
    # --- the index mask belongs to the table: table_mask is written exactly on the paths that replace the table, with (new length - 1);
    # nothing else writes it (a mask for another length sends every hash to slots its counters were not recorded in)
    nmask = 0
    for p in ctx.symex(inline_depth=1).run(ens.nid):
        if p.diverged:
            continue
        wt = [e for e in p.events if e[0] == 'write' and isinstance(e[1], tuple) and e[1][0] == 'fld' and e[1][2] == 'table']
        wm = [e for e in p.events if e[0] == 'write' and isinstance(e[1], tuple) and e[1][0] == 'fld' and e[1][2] == 'table_mask']
        nmask += 1
        rel = True
        if wt and wm:
            mv = wm[-1][2]
            size = mv[2] if (isinstance(mv, tuple) and mv and mv[0] == 'bin' and mv[1] in ('Sub', 'wrapping_sub', 'saturating_sub') and mv[3] == ('c', 1)) else None
            rel = size is not None and any(x == size for x in subterms(wt[-1][2]))
        ok = (bool(wt) == bool(wm)) and rel
        r.instance(function=ens.nid, table_replaced=bool(wt), mask_written=bool(wm), mask_is_new_length_minus_1=rel if (wt and wm) else None, ok=ok)
        if not ok:
            r.violate(ens.nid, 'mask-without-table', 'table_mask', 'ensure_capacity writes table_mask %s: the mask no longer matches the length of the table the counters '
                      'were recorded in, so estimates drop without an aging step' % ('on a path that keeps the table' if (wm and not wt) else
                                                                                    ('not on a path that replaces the table' if (wt and not wm) else 'with something else than the new length - 1')),
                      where=ctx.where(ens.nid, (wm or wt)[-1][3]), expected='table and table_mask = table_size - 1 are assigned together, after the growth test')
    for w in sorted(ctx.eff.who_has(('write', SK, 'table_mask'))):
        okw = w in (ens.nid,) or w.endswith(('::default', '::new'))
        r.instance(writer_of='FrequencySketch.table_mask', function=w, ok=okw)
        if not okw:
            r.violate(w, 'mask-writer', 'table_mask', '%s writes FrequencySketch.table_mask outside ensure_capacity' % w, where=ctx.where(w))
    # --- enable test false once enabled
    for nid, b in sorted(prog.bodies.items()):
        if b.kind == 'closure' or b.locals[0]['ty']['s'] != 'bool':
            continue
        reads = [e for e in ctx.eff.direct.get(nid, ()) if e[0] == 'read' and e[2] == 'frequency_sketch_enabled']
        if not reads:
            continue
        sx = ctx.symex(inline_depth=1)
        for p in sx.run(nid):
            if p.diverged or p.ret == ('c', False):
                continue
            known_off = any(v is False and any(isinstance(x, tuple) and x and x[0] == 'fld' and x[2] == 'frequency_sketch_enabled' for x in subterms(c)) for c, v in p.conds)
            r.instance(function=nid, may_return_true=fmt(p.ret)[:50], requires_not_enabled=known_off)
            if not known_off:
                r.violate(nid, 'enable-test-after-enabled', 'frequency_sketch_enabled', '%s can return true although the estimator is already enabled: ensure_capacity would run again and, on growth, '
                          'zero all recorded counts' % nid, where=ctx.where(nid), expected='if self.frequency_sketch_enabled { false }')
    # --- the table is (re)sized only by the enable role: every function outside the sketch module that calls ensure_capacity also sets the
    # `enabled` latch on the paths where it calls it -- so the call happens once, before any lookup has been recorded (a second caller would
    # wipe the recorded counts whenever it grows the table)
    ncall = 0
    # (the sketch module may offer the resize under another name that adapts the argument: `ensure_capacity_for_cache` -- every function of
    # the module that reaches the resize is a way in)
    in_sketch = lambda n_: n_.startswith(('common::frequency_sketch::', '<common::frequency_sketch::'))
    resize_entries = {ens.nid} | {n_ for n_, b_ in prog.bodies.items() if in_sketch(n_) and b_.kind != 'closure' and ens.nid in prog.reachable_from([n_])}
    for nid, b in sorted(prog.bodies.items()):
        if in_sketch(nid) or '::tests::' in nid or 'for_testing' in nid:
            continue
        if not (resize_entries & prog.callees(nid)):
            continue
        root_ = (b.root or nid) if b.kind == 'closure' else nid
        try:
            ps_ = [p for p in ctx.symex(inline_depth=1, loop_visits=2, inline_pred=lambda n_, bb, d: False).run(nid) if not p.diverged]
        except PathLimit:
            raise CheckFailure('SKETCH-structure: path limit in %s' % nid)
        for p in ps_:
            if not any(e[0] == 'call' and e[1] in resize_entries for e in p.events):
                continue
            ncall += 1
            latch = any((e[0] == 'write' and any(isinstance(x, tuple) and x and x[0] == 'fld' and x[2] == 'frequency_sketch_enabled' for x in subterms(e[1])) and e[2] == ('c', True)) or
                        (e[0] == 'call' and str(e[1]).endswith('::store') and e[2] and 'frequency_sketch_enabled' in fmt(e[2][0]) and len(e[2]) > 1 and e[2][1] == ('c', True))
                        for e in p.events)
            r.instance(function=nid, calls_ensure_capacity=True, sets_enabled_latch_on_that_path=latch)
            if not latch:
                r.violate(root_, 'resize-outside-enable', 'ensure_capacity', '%s calls FrequencySketch::ensure_capacity on a path that does not set the `frequency_sketch_enabled` latch: it is not the one-time '
                          'enable step, so it can run again after lookups were recorded and wipes their counts when the table grows' % nid, where=ctx.where(nid),
                          expected='ensure_capacity only in enable_frequency_sketch (guarded by should_enable_frequency_sketch)')
    if ncall < 1 and not r.violations:
        raise CheckFailure('SKETCH-structure: no caller of ensure_capacity found outside the sketch module')
    # --- depth 4
    for fn in ('frequency', 'increment'):
        b = ctx.body(SK + '::' + fn)
        # (the loop may live in a private helper of the module that the function calls on every path: `increment_counters`)
        grp = [b] + [prog.bodies[c] for c in prog.closures_of.get(b.nid, [])] + [prog.bodies[c] for c in sorted(prog.callees(b.nid)) if c in prog.bodies and
                                                                                 prog.bodies[c].kind != 'closure' and c.lstrip('<').startswith('common::frequency_sketch::') and
                                                                                 not c.endswith(('::reset', '::index_of', '::increment_at', '::ensure_capacity'))]
        ranges = [s['rv'] for bb in grp for _, _, s in bb.stmts() if s['st'] == 'assign' and s['rv']['rv'] == 'aggr' and s['rv'].get('kind') == 'adt' and norm(s['rv']['adt']) == 'std::ops::Range']

        def _cv(o_):
            if o_.get('val') is not None:
                return o_.get('val')
            c_ = prog.consts.get(norm(str(o_.get('item') or ''))) if o_.get('k') == 'const' else None
            return c_.get('val') if c_ else None
        ok = any(_cv(rg['ops'][0]) == 0 and _cv(rg['ops'][1]) == 4 for rg in ranges)
        how = 'literal range 0..4' if ok else None
        if not ok:
            # the four (table index, counter index) pairs are computed by a helper of the module (its loop is the literal range 0..4) and
            # handed over as an array of length 4, which the function then walks
            helpers = [c for c in prog.callees(b.nid) if c.startswith(('common::frequency_sketch::', '<common::frequency_sketch::')) and prog.bodies[c].kind != 'closure'
                       and prog.bodies[c].locals[0]['ty']['s'].startswith('[') and prog.bodies[c].locals[0]['ty']['s'].endswith('; 4]')]
            h_ok = any(any(s['st'] == 'assign' and s['rv']['rv'] == 'aggr' and s['rv'].get('kind') == 'adt' and norm(s['rv']['adt']) == 'std::ops::Range' and
                           s['rv']['ops'][0].get('val') == 0 and s['rv']['ops'][1].get('val') == 4 for _, _, s in prog.bodies[c].stmts()) for c in helpers)
            walks = any('IntoIter<' in l['ty']['s'] and l['ty']['s'].rstrip('>').endswith(', 4') for l in b.locals)
            if h_ok and walks:
                ok, how = True, 'array of 4 slots from %s' % helpers[0].split('::')[-1]
        if not ok:
            # the depth loop may be driven by an iterator of this module instead of a literal range: decide by unrolling it -- every explored
            # execution of the function goes round its loop exactly 4 times (5 visits of the header), none is abandoned at the unrolling bound
            try:
                seqs = ctx.symex(inline_depth=3, loop_visits=8, trip_events=True, emit_cut=True, inline_pred=_mod).run(b.nid)
            except PathLimit:
                seqs = []
            trips = [sum(1 for e in p.events if e[0] == 'trip') for p in seqs if not p.diverged]
            # (a path that returns before the loop -- the sketch is not allocated yet -- has no trip at all)
            if seqs and trips and not any(p.diverged == 'cut' for p in seqs) and all(t_ in (0, 5) for t_ in trips) and 5 in trips:
                ok, how = True, 'unrolled: exactly 4 iterations on each of %d path(s)' % len(trips)
        r.instance(function=b.nid, depth_range_0_4=ok, decided_by=how)
        if not ok:
            r.violate(b.nid, 'sketch-depth', '0..4', '%s does not loop over the 4 counters of a key' % b.nid, where=ctx.where(b.nid))
        # all four counters are visited on every call: the depth loop is left only when its range is exhausted (no break / early return)
        for bb in grp:
            succ, _pred, _seen = bb.cfg()
            for h, body, back in bb.loops():
                srcs = sorted({x for x in body for s_ in succ.get(x, []) if s_ not in body and not bb.blocks[s_].get('cleanup')
                               and bb.blocks[s_]['term']['t'] not in ('unreachable',)})
                # exits through a diverging call (panic) are not normal exits
                srcs = [x for x in srcs if not (bb.blocks[x]['term']['t'] == 'call' and bb.blocks[x]['term'].get('target') is None)]
                r.instance(function=bb.nid, depth_loop_exit_blocks=len(srcs))
                if len(srcs) > 1:
                    r.violate(bb.nid, 'sketch-depth-early-exit', 'loop', 'the counter loop of %s can be left before all 4 counters of the key were visited (%d exit points): counters of a '
                              'key get out of step, estimates fall below the number of recorded lookups' % (bb.nid, len(srcs)), where=ctx.where(bb.nid),
                              expected='for i in 0..4 { .. } without break / return')
    r.require_floor(6, 'sketch structure obligations')
    return r


def ctx_load(key):
    return key
