"""Entry point:  python3 -m mokalint.run <Cnn> --tier quick|thorough

Re-extracts facts from /repo's working tree, evaluates the rules of the property, matches
violations against known_findings.json, writes evidence/<Cnn>.json and the diagnosable reports
(the "replay" artefacts), prints KNOWN-FINDING / VIOLATION lines.  Exit 0 = held on everything
analysed, 1 = violation, 2 = the check could not give a verdict (missing anchor, stale facts).
"""
import argparse, json, os, sys, time, traceback

from . import extract
from .core import Context, CheckFailure, RuleResult, load_known_findings, VERIF
from .kernel import AnchorMissing
from .symex import PathLimit
from .props import PROPERTIES

REPO = os.environ.get('VERIF_REPO', '/repo')
_CTX = {}


def run_property(pid, tier, seed):
    t0 = time.time()
    spec = PROPERTIES[pid]
    configs = ['default'] if tier == 'quick' else spec.get('thorough_configs', ['default', 'dev', 'release', 'nosync'])
    all_results = []
    failed_rules = []
    cfg_info = []
    fixtures_results = None
    for cfg in configs:
        if cfg not in _CTX:
            facts, dt = extract.extract(REPO, 'mini_moka', cfg)
            _CTX[cfg] = (Context(facts, tier=tier), dt)
        ctx, dt = _CTX[cfg]
        facts = ctx.facts
        cfg_info.append({'config': cfg, 'bodies': len(ctx.prog.bodies), 'extract_s': round(dt, 2), 'cfg': facts['cfg']})
        rules = spec['rules']
        for rule in rules:
            if cfg != 'default' and (getattr(rule, 'default_only', False) or rule.__module__.endswith('rules_type')):
                continue
            if cfg in getattr(rule, 'skip_configs', ()):
                continue
            # one evaluation per rule and configuration, shared by the properties that use the rule (ALL mode)
            rk = ('ruleresult', rule)
            if rk not in ctx.cache:
                try:
                    ctx.cache[rk] = rule(ctx)
                except (CheckFailure, AnchorMissing, PathLimit) as e:
                    ctx.cache[rk] = e
            res = ctx.cache[rk]
            if isinstance(res, Exception):
                # this rule cannot give a verdict; the others still can (a violation they find is reported, the failure is listed with it)
                failed_rules.append((getattr(rule, '__name__', str(rule)), cfg, res))
                continue
            res.config = cfg
            all_results.append(res)
    # fixtures: every rule of this property that has a bad fixture must fire on it
    fx = spec.get('fixtures')
    if fx:
        fixtures_results = fx(tier)
    if failed_rules and not any(r_.violations for r_ in all_results):
        raise failed_rules[0][2]
    run_property.failed = failed_rules
    return all_results, cfg_info, fixtures_results, time.time() - t0


def main(argv=None):
    ap = argparse.ArgumentParser()
    ap.add_argument('property')
    ap.add_argument('--tier', default=os.environ.get('VERIF_TIER', 'quick'), choices=['quick', 'thorough'])
    args = ap.parse_args(argv)
    if args.property == 'ALL':
        # every claimed property on one extraction of the current tree (used by the validation matrices)
        worst = 0
        for pid in sorted(PROPERTIES):
            rc = check_one(pid, args)
            print('RESULT %s rc=%d' % (pid, rc))
            worst = max(worst, rc)
        return worst
    return check_one(args.property, args)


def check_one(pid, args):
    seed = int(os.environ.get('VERIF_SEED', '0') or 0)
    if pid not in PROPERTIES:
        print('unknown or unclaimed property', pid)
        return 2
    evdir = os.environ.get('VERIF_EVIDENCE', os.path.join(VERIF, 'evidence'))
    ev_path = os.path.join(evdir, pid + '.json')
    os.makedirs(os.path.dirname(ev_path), exist_ok=True)
    rep_dir = os.path.join(evdir, 'reports', pid)
    os.makedirs(rep_dir, exist_ok=True)
    for f in os.listdir(rep_dir):
        os.remove(os.path.join(rep_dir, f))
    try:
        results, cfg_info, fixtures, wall = run_property(pid, args.tier, seed)
    except (CheckFailure, AnchorMissing, extract.ExtractError, PathLimit) as e:
        print('CHECK-FAILED property=%s: %s' % (pid, e))
        return 2
    known = load_known_findings()
    known_keys = {k['key']: k for k in known.get('findings', []) if k['property'] == pid}
    new_violations = []
    known_hit = []
    seen_keys = set()
    for res in results:
        for v in res.violations:
            if (v.key, res.config) in seen_keys:
                continue
            seen_keys.add((v.key, res.config))
            if v.key in known_keys:
                if v.key not in [k.key for k in known_hit]:
                    known_hit.append(v)
            else:
                if v.key not in [k.key for k, _ in new_violations]:
                    new_violations.append((v, res.config))
    # fixtures failing to fire = broken checker
    fx_fail = []
    if fixtures:
        fx_fail = [f for f in fixtures if not f['ok']]
    # ---- evidence
    spec = PROPERTIES[pid]
    instances = sum(len(r.instances) for r in results)
    distinct = len({json.dumps(i, sort_keys=True, default=str) for r in results for i in r.instances})
    samples = []
    for r in results:
        for i in r.instances[:3]:
            samples.append({'rule': r.rule, 'config': getattr(r, 'config', 'default'), 'instance': i})
    obligations = instances
    undischarged = len(new_violations) + len(known_hit)
    ev = {
        'property_id': pid,
        'tier': args.tier,
        'seed': seed,
        'level': 'other',
        'wall_s': round(wall, 2),
        'violations': len(new_violations),
        'coverage': {
            'explanation': spec['explanation'],
            'technique': 'static analysis of type-checked MIR (rustc_private fact extractor + rule kernel); nothing is executed',
            'decides': spec['decides'],
            'does_not_decide': spec['does_not_decide'],
            'configurations': cfg_info,
            'rules': [{'rule': r.rule, 'config': getattr(r, 'config', 'default'), 'statement': r.statement, 'instances': len(r.instances),
                       'floor': r.floor, 'violations': [v.key for v in r.violations], 'notes': r.notes} for r in results],
            'obligations': obligations,
            'discharged': max(obligations - undischarged, 0),
            'evaluations': instances,
            'distinct_nontrivial': distinct,
            'rule': 'one evaluation = one rule instance (a call site, path, loop, lock edge, comparison, constant relation or '
                    'inventory entry) analysed on this run; distinct = distinct (rule, instance) records; an instance is '
                    'non-trivial because it is a concrete construct found in the current source, never a constant',
            'samples': samples[:40],
            'exhaustive': True,
            'known_findings_reported': [v.key for v in known_hit],
            'fixtures': fixtures,
        },
        'assumptions': sorted({a for r in results for a in r.assumptions} | set(spec.get('assumptions', []))),
    }
    with open(ev_path, 'w') as f:
        json.dump(ev, f, indent=1, default=str)
    # ---- output
    for r in results:
        print('[%s/%s] %s: %d instance(s), %d violation(s)' % (pid, getattr(r, 'config', 'default'), r.rule, len(r.instances), len(r.violations)))
    for rn_, cfg_, ex_ in getattr(run_property, 'failed', []):
        print('[%s/%s] %s: no verdict (%s)' % (pid, cfg_, rn_, str(ex_)[:160]))
    for v in known_hit:
        kf = known_keys[v.key]
        print('KNOWN-FINDING: property=%s %s -- %s' % (pid, v.key, kf.get('what', v.message)))
    rc = 0
    for n, (v, cfg) in enumerate(new_violations):
        rp = os.path.join(rep_dir, '%d.json' % n)
        with open(rp, 'w') as f:
            json.dump({'property': pid, 'config': cfg, **v.to_json()}, f, indent=1, default=str)
        print('  %s %s: %s' % (v.rule, v.where or v.function, v.message))
        print('VIOLATION property=%s replay=%s' % (pid, rp))
        rc = 1
    if fx_fail:
        for f in fx_fail:
            print('CHECK-FAILED property=%s: fixture %s: %s' % (pid, f['name'], f['why']))
        return 2 if rc == 0 else rc
    print('%s %s: %s (%.1fs, %d instances, %d known finding(s))' % (pid, args.tier, 'VIOLATED' if rc else 'ok', wall, instances, len(known_hit)))
    return rc


if __name__ == '__main__':
    sys.exit(main())
