"""STALE rules: deferred operations (queued ReadOp / WriteOp, deque nodes) are applied long after they
were created; they must not overwrite newer state.  STALE-ts, STALE-removal, MUST-admit-live."""
from .core import RuleResult, CheckFailure
from .kernel import norm
from .roles import ev_is, ts_name_kind, sync_ts_fields
from .roles import CHAN_RECV, recv_types
from .roles import get_roles, DASHMAP_REMOVE
from .symex import fmt, subterms, PathLimit

SYNC_INNER = 'sync::base_cache::Inner'


def _maintenance_fns(ctx):
    R = get_roles(ctx)
    reach = ctx.prog.reachable_from(sorted(R.maintenance))
    return {n for n in reach if n.startswith('sync::')}


def rule_stale_ts(ctx):
    r = RuleResult('STALE-ts', 'an Instant taken from a queued op (Receiver::try_recv) is written to EntryInfo.last_accessed / last_modified only '
                   'under a comparison with the current content of that store (or when it is unset): deferred reads never move a '
                   'timestamp backwards')
    prog = ctx.prog
    R = get_roles(ctx)
    if not R.maintenance:
        return r
    consumers = [n for n in _maintenance_fns(ctx) if prog.bodies[n].kind != 'closure' and recv_types(ctx, n)]
    if len(consumers) < 2:
        raise CheckFailure('STALE-ts: expected the read-op and write-op consumers, found %s' % consumers)
    nwrites = 0
    for nid in sorted(consumers):
        sx = ctx.symex(inline_depth=6, loop_visits=2,
                       inline_pred=lambda n, b, d: False if (n.endswith('handle_upsert') or 'handle_remove' in n) else None)
        try:
            paths = [p for p in sx.run(nid) if not p.diverged]
        except PathLimit:
            raise CheckFailure('STALE-ts: path limit in %s' % nid)
        for p in paths:
            for e in p.events:
                if e[0] != 'write':
                    continue
                key, val = e[1], e[2]
                if not any(isinstance(x, tuple) and x and x[0] == 'fld' and ts_name_kind(x[2]) for x in subterms(key)):
                    continue
                from_op = any(isinstance(x, tuple) and x and x[0] == 'call' and str(x[1]).endswith('Receiver::try_recv') for x in subterms(val))
                if not from_op:
                    continue
                nwrites += 1
                guarded = False
                how = None
                for c, v in p.conds:
                    mentions_loc = any(x == key for x in subterms(c))
                    if not mentions_loc:
                        continue
                    if isinstance(c, tuple) and c[0] == 'discr' and v == 0:
                        guarded, how = True, 'store was unset'
                    if isinstance(c, tuple) and c[0] == 'cmp' and c[1] in ('lt', 'le'):
                        # old < new (== True)   or   new <= old (== False)
                        a_has_loc = any(x == key for x in subterms(c[2]))
                        if (a_has_loc and v is True) or ((not a_has_loc) and v is False):
                            guarded, how = True, '%s == %s' % (fmt(c)[:80], v)
                store = [x[2] for x in subterms(key) if isinstance(x, tuple) and x and x[0] == 'fld' and ts_name_kind(x[2])][0]
                r.instance(function=nid, store=store, value=fmt(val)[:60], guarded=guarded, how=how)
                if not guarded:
                    r.violate(nid, 'unguarded-deferred-timestamp', store,
                              'the timestamp of a queued op is stored to EntryInfo.%s without comparing it with the current value: a read applied '
                              'after a later update / re-insert moves the time backwards (early expiry, or below the invalidate_all watermark)' % store,
                              where=ctx.where(nid, e[3]), path=[fmt(c)[:70] + ' == ' + str(v) for c, v in p.conds][:8],
                              expected='only advance: write if current < timestamp')
    r.require_floor(1, 'deferred timestamp writes')
    return r


def rule_stale_removal(ctx):
    r = RuleResult('STALE-removal', 'in code reachable from the maintenance run every map removal is DashMap::remove_if whose predicate depends on both '
                   "the map's current value and the op / node it is performed for (identity, expiry of that value, or its timestamp): "
                   'maintenance never removes by key alone')
    prog = ctx.prog
    R = get_roles(ctx)
    if not R.maintenance:
        return r
    fns = _maintenance_fns(ctx)
    n = 0
    for nid in sorted(fns):
        b = prog.bodies[nid]
        for bi, t in b.calls():
            _, ext, passed = prog.call_targets(b, t)
            if ext not in DASHMAP_REMOVE:
                continue
            n += 1
            m = ext.split('::')[-1]
            if m != 'remove_if':
                r.instance(function=nid, call=ext, guarded=False)
                r.violate(nid, 'unconditional-removal', m, 'maintenance removes a map entry by key alone (%s): the key may meanwhile map to a newer '
                          'entry that was never examined (spurious loss; counters and deque nodes of the wrong generation)' % ext,
                          where=ctx.where(nid, t.get('line')), expected='remove_if(key, |_, v| <v is the entry this op / node belongs to>)')
                continue
            if not passed:
                r.instance(function=nid, call=ext, guarded=False, why='predicate is not a closure')
                r.violate(nid, 'removal-predicate', 'remove_if', 'remove_if predicate is not an in-crate closure', where=ctx.where(nid, t.get('line')))
                continue
            clo = passed[0]
            sx = ctx.symex(inline_depth=4)
            uses_v = uses_cap = False
            const_true = False
            for p in sx.run(clo):
                if p.diverged:
                    continue
                terms = [p.ret] + [c for c, v in p.conds]
                for tm in terms:
                    for x in subterms(tm):
                        if x == ('param', 3):
                            uses_v = True
                        if isinstance(x, tuple) and x and x[0] == 'fld' and x[1] == ('param', 1):
                            uses_cap = True
                if p.ret == ('c', True) and not p.conds:
                    const_true = True
            # the rejection of an op's own candidate must compare the mapped value *itself* with the op's entry (an updated
            # value shares the EntryInfo of the one it replaced: comparing EntryInfo would remove the newer value)
            is_cand = nid.endswith('remove_candidate') or any(
                a.get('k') in ('copy', 'move') and b.local_name(a['pl']['l']) in ('key',) for a in t['args'][1:2]) and not any(
                'element' in str(x) for x in [t['args'][1]])
            weak_identity = False
            if is_cand:
                for p in sx.run(clo):
                    for tm in [p.ret] + [c for c, v in p.conds]:
                        for x in subterms(tm):
                            if isinstance(x, tuple) and x and x[0] == 'call' and str(x[1]).split('::')[-1] in ('eq', 'ptr_eq') and \
                                    any(isinstance(y, tuple) and y and y[0] == 'fld' and y[2] == 'info' for a2 in x[2] for y in subterms(a2)):
                                weak_identity = True
            ok = uses_v and uses_cap and not const_true and not weak_identity
            r.instance(function=nid, call=ext, predicate=clo, depends_on_map_value=uses_v, depends_on_op_or_node=uses_cap, ok=ok)
            if weak_identity:
                r.violate(nid, 'candidate-identity', 'EntryInfo', 'the rejected-candidate removal in %s compares the shared EntryInfo instead of the value entry itself: a queued update of the same '
                          'key (same EntryInfo, newer value) is removed by the stale op' % nid, where=ctx.where(nid, t.get('line')), expected='remove_if(key, |_, v| TrioArc::ptr_eq(v, entry))')
            elif not ok:
                r.violate(nid, 'removal-predicate', clo.split('::')[-1], 'the remove_if predicate %s does not tie the removal to the entry the op / node '
                          'belongs to (uses map value: %s, uses op/node: %s)' % (clo, uses_v, uses_cap), where=ctx.where(nid, t.get('line')))
    r.require_floor(5, 'map removal sites in maintenance')
    return r


def rule_admit_live(ctx):
    r = RuleResult('MUST-admit-live', 'the write-op consumer pushes deque nodes / raises the counters for a not-yet-admitted entry only on paths '
                   'where a lookup of the op\'s key in the map returned an entry that is identity-compared with the op\'s entry: an op whose '
                   'entry already left the map is never admitted')
    prog = ctx.prog
    from .roles import upsert_role
    ur = upsert_role(ctx)
    if not ur:
        if any(n.startswith('sync::') for n in prog.bodies):
            raise CheckFailure('MUST-admit-live: upsert role not found')
        return r
    nid = ur['nid']
    b = prog.bodies[nid]
    entry_p = ur['entry_t']
    key_p = ur.get('key_t')
    sx = ctx.symex(inline_depth=3, loop_visits=2, inline_pred=lambda n, bb, d: False if 'handle_remove' in n else None)
    try:
        paths = [p for p in sx.run(nid) if not p.diverged]
    except PathLimit:
        raise CheckFailure('MUST-admit-live: path limit')
    for p in paths:
        pushes = [e for e in p.events if ev_is(ctx, e, 'push', 'ao')]
        if not pushes:
            continue
        # conds established before the push: we use all conds of the path that precede it in program order -- conds are
        # recorded in order, events too; approximate with "exists" and additionally require the lookup event to precede the push
        ok = False
        why = 'no identity check against the map on this admission path'
        for c, v in p.conds:
            if v is True and isinstance(c, tuple) and c[0] == 'call' and str(c[1]).split('::')[-1] in ('eq', 'ptr_eq'):
                a = c[2]
                has_map = any(any(isinstance(x, tuple) and x and x[0] == 'call' and str(x[1]) in ('dashmap::DashMap::get', 'dashmap::DashMap::get_mut') and
                                  key_p is not None and any(y == key_p for y in subterms(x)) for x in subterms(arg)) for arg in a)
                has_entry = any(any(y == entry_p for y in subterms(arg)) and not any(isinstance(x, tuple) and x and x[0] == 'call' and 'DashMap' in str(x[1]) for x in subterms(arg)) for arg in a)
                if has_map and has_entry:
                    ok, why = True, fmt(c)[:100]
        if ok:
            # order: the lookup happens before the push
            idx_get = [i for i, e in enumerate(p.events) if e[0] == 'call' and str(e[1]) in ('dashmap::DashMap::get', 'dashmap::DashMap::get_mut')]
            idx_push = p.events.index(pushes[0])
            if not idx_get or min(idx_get) > idx_push:
                ok, why = False, 'the map lookup comes after the admission'
        r.instance(function=nid, admission_line=pushes[0][3], identity_check=why, ok=ok)
        if not ok:
            r.violate(nid, 'admission-without-liveness-check', 'push_back', 'an admission path of the write-op consumer does not establish that the map still '
                      'holds the op\'s entry (%s): a queued op of an evicted / invalidated entry becomes a ghost node that is counted for ever' % why,
                      where=ctx.where(nid, pushes[0][3]), path=[fmt(c)[:70] + ' == ' + str(v) for c, v in p.conds][:8],
                      expected='cache.get(key) is the op\'s entry (same EntryInfo) before handle_admit')
    r.require_floor(2, 'admission paths')
    return r


def rule_must_drain(ctx):
    r = RuleResult('MUST-drain', 'the maintenance run applies queued reads whenever the read queue is non-empty and queued writes whenever the write '
                   'queue is non-empty, independent of configuration: queued ops (which hold keys, values and entry references) never pile up')
    prog = ctx.prog
    R = get_roles(ctx)
    if not R.maintenance:
        return r
    consumers = {}
    for n in _maintenance_fns(ctx):
        b = prog.bodies[n]
        if b.kind == 'closure':
            continue
        ty = recv_types(ctx, n)
        if ty:
            consumers[n] = 'read' if 'ReadOp' in ty else ('write' if 'WriteOp' in ty else '?')
    for m in sorted(R.maintenance):
        leads = {n for n in _maintenance_fns(ctx) if n not in consumers and (prog.reachable_from([n]) & set(consumers))}
        def pol(n, b, d):
            if n in leads and b.kind != 'closure':
                return True
            # small side-effect-free predicates ("should this step run now?") are part of the decision
            if b.kind != 'closure' and not b.loops() and len(b.blocks) <= 40 and b.locals[0]['ty']['s'] == 'bool' and n not in consumers and \
                    not any(e[0] == 'write' for e in ctx.eff.transitive(n)):
                return True
            return False
        try:
            paths = [p for p in ctx.symex(inline_depth=3, loop_visits=2, inline_pred=pol).run(m) if not p.diverged]
        except PathLimit:
            # (build configurations with debug assertions multiply the paths of two trips of the run's loop: the obligation is per trip, one
            # trip with the step predicates stepped into one level decides it as well)
            try:
                paths = [p for p in ctx.symex(inline_depth=2, loop_visits=1, inline_pred=pol, emit_cut=True).run(m) if p.diverged in (False, 'cut')]
            except PathLimit:
                raise CheckFailure('MUST-drain: path limit exceeded in %s' % m)

        def len_lits(p, chan):
            """(nonempty, empty) facts about the queue established on the path."""
            ne = em = False
            for c, v in p.conds:
                if not (isinstance(c, tuple) and c[0] == 'cmp'):
                    continue
                islen = lambda x: isinstance(x, tuple) and x and x[0] == 'call' and str(x[1]).endswith('Receiver::len') and chan in fmt(x)
                if c[1] == 'lt' and c[2] == ('c', 0) and islen(c[3]):
                    ne, em = (ne or v is True), (em or v is False)
                if c[1] == 'le' and c[3] == ('c', 0) and islen(c[2]):
                    ne, em = (ne or v is False), (em or v is True)
                if c[1] in ('eq', 'ne') and ((c[2] == ('c', 0) and islen(c[3])) or (c[3] == ('c', 0) and islen(c[2]))):
                    is_zero = (v is True) if c[1] == 'eq' else (v is False)
                    ne, em = (ne or not is_zero), (em or is_zero)
            return ne, em
        for p in paths:
            # `0 <= x` cannot be false for an unsigned x: such paths do not exist
            if any(isinstance(c, tuple) and c[0] == 'cmp' and ((c[1] == 'le' and c[2] == ('c', 0) and v is False) or (c[1] == 'lt' and c[3] == ('c', 0) and v is True)) for c, v in p.conds):
                continue
            # likewise the first next() of `0..=n` (n unsigned) always yields an item
            def _first_of_inclusive_from_zero(c):
                if not (isinstance(c, tuple) and c[0] == 'discr' and isinstance(c[1], tuple) and c[1][0] == 'call' and str(c[1][1]).endswith('::next') and len(c[1]) == 3 and c[1][2]):
                    return False
                rg = c[1][2][0]
                return isinstance(rg, tuple) and rg and ((rg[0] == 'call' and str(rg[1]).endswith('RangeInclusive::new') and rg[2] and rg[2][0] == ('c', 0)) or
                                                         (rg[0] == 'aggr' and 'RangeInclusive' in str(rg[1]) and rg[3] and rg[3][0] == ('c', 0)))
            if any(v == 0 and _first_of_inclusive_from_zero(c) for c, v in p.conds):
                continue
            for kind, chan in (('read', 'read_op_ch'), ('write', 'write_op_ch')):
                nonempty, empty = len_lits(p, chan)
                called = any(e[0] == 'call' and consumers.get(e[1]) == kind for e in p.events)
                if called or (empty and not nonempty):
                    r.instance(function=m, queue=kind, consumer_called=called, queue_known_empty=empty)
                    continue
                r.instance(function=m, queue=kind, consumer_called=False, queue_known_empty=empty, nonempty=nonempty)
                r.violate(m, 'queue-not-drained', kind, 'a path of the maintenance run does not apply the %s queue although it has not established that the queue is empty (conditions: %s)' % (
                    kind, [fmt(c)[:50] + '==' + str(v) for c, v in p.conds][:8]), where=ctx.where(m),
                    expected='if %s.len() > 0 { apply }  -- unconditionally' % chan)
    r.require_floor(2, 'paths with a non-empty queue')
    return r


def rule_explicit_sync(ctx):
    r = RuleResult('MUST-explicit-sync', 'the explicit sync() of the public API runs the maintenance step itself on every path (it is what callers use to reach a quiescent '
                   'state: it is not subject to the housekeeper\'s "somebody else is running it" flag)')
    prog = ctx.prog
    R = get_roles(ctx)
    if not R.maintenance:
        return r
    # the explicit `sync()` of the public API runs the maintenance step itself, on every path: it is what callers use to reach a quiescent
    # state, so it must not be subject to the housekeeper's "somebody else is already running it" flag (then it would return with its own ops
    # still queued)
    for ent in sorted(prog.trait_impls.get('sync::ConcurrentCacheExt::sync', [])):
        try:
            ps = [p for p in ctx.symex(inline_depth=3, loop_visits=2, inline_pred=lambda n_, bb, d: False if (n_ in R.maintenance or n_ in R.try_sync) else None).run(ent) if not p.diverged]
        except PathLimit:
            raise CheckFailure('MUST-explicit-sync: path limit in %s' % ent)
        for p in ps:
            runs = any(e[0] == 'call' and (e[1] in R.maintenance or str(e[1]).endswith('InnerSync::sync')) for e in p.events)
            via_flag = any(e[0] == 'call' and e[1] in R.try_sync for e in p.events)
            r.instance(function=ent, runs_maintenance_itself=runs, through_try_flag=via_flag)
            if not runs:
                r.violate(ent, 'explicit-sync-skippable', 'try_sync' if via_flag else 'none', 'a path of the explicit sync() %s: it can return while another thread\'s run is in progress, with the '
                          'caller\'s own ops still queued (counters, evictions and releases the caller waits for have not happened)' % (
                              'goes through the housekeeper\'s try-flag instead of running the maintenance step' if via_flag else 'does not run the maintenance step'),
                          where=ctx.where(ent), expected='self.base.inner.sync(MAX_SYNC_REPEATS)')
    r.require_floor(1, 'explicit sync entry points')
    return r


def rule_auth_ts_writers(ctx):
    r = RuleResult('AUTH-ts-writers', 'the last-accessed / last-modified stores are written only on behalf of a use: by insert (new entry / update closure), and by the read-op '
                   'consumer for a received Hit; the write-op consumer, admission, eviction and expiry never write them (unsync: only insert / get paths)')
    prog, eff = ctx.prog, ctx.eff
    R = get_roles(ctx)
    EI = 'common::concurrent::entry_info::EntryInfo'
    n = 0
    if ctx.has_sync:
        writers = {x for x in prog.bodies if any(('write', a_, f_) in eff.direct.get(x, ()) for a_, f_ in sync_ts_fields(ctx))}
        maint = _maintenance_fns(ctx)
        read_cons = {x for x in maint if prog.bodies[x].kind != 'closure' and 'ReadOp' in recv_types(ctx, x)}
        for fn in sorted(maint):
            if fn in read_cons or fn in R.maintenance or prog.bodies[fn].kind == 'closure':
                continue
            if prog.reachable_from([fn]) & read_cons:
                continue
            reach = prog.reachable_from([fn]) & writers
            n += 1
            if reach:
                r.instance(function=fn, reaches_timestamp_writer=sorted(reach))
                path = prog.call_path(fn, lambda y: y in writers)
                r.violate(fn, 'timestamp-written-by-maintenance', sorted(reach)[0].split('::')[-1], 'maintenance function %s can write an entry\'s last-accessed / last-modified time (%s): only a use '
                          '(insert, update, applied get hit) may move these' % (fn, ' -> '.join(x.split('::')[-1] for x in (path or [fn]))), where=ctx.where(fn), path=path)
        r.instance(sync_maintenance_functions_checked=n, allowed_writer=sorted(read_cons))
    # unsync: timestamp fields are written by the AccessTime setters; who calls them
    uw = {x for x in prog.bodies if any(('write', a, 'timestamp') in eff.direct.get(x, ()) for a in ('unsync::KeyDate', 'unsync::KeyHashDate'))}
    for pub in prog.public_api():
        if not pub.startswith(('unsync::cache::Cache::', '<unsync::')):
            continue
        if prog.reachable_from([pub]) & uw:
            ok = pub in ('unsync::cache::Cache::insert', 'unsync::cache::Cache::get')
            n += 1
            r.instance(public_entry=pub, writes_timestamps=True, allowed=ok)
            if not ok:
                r.violate(pub, 'timestamp-written', 'timestamp', 'public entry %s can write entry timestamps' % pub, where=ctx.where(pub))
    r.require_floor(3 if ctx.has_sync else 2, 'functions / entries checked')
    return r
