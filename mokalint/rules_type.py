"""TYPE rule: type-level witnesses (compile_fail doctests with an error code + compiling twins) in /verif/witness,
compiled against /repo's current working tree with `cargo +nightly test --doc --offline`."""
import os, re, shutil, subprocess, time

from .core import RuleResult, CheckFailure, VERIF

WITNESS = os.path.join(VERIF, 'witness')


def run_witnesses():
    repo = os.environ.get('VERIF_REPO', '/repo')
    wdir, tdir = WITNESS, os.path.join(VERIF, '.cache', 'target-witness')
    if repo != '/repo':
        # validation runs on a scratch copy of the repository: a private copy of the witness crate pointing at it
        wdir = '/tmp/witness' + os.environ.get('VERIF_CACHE_TAG', '-alt')
        shutil.rmtree(wdir, ignore_errors=True)
        shutil.copytree(WITNESS, wdir, ignore=shutil.ignore_patterns('target'))
        ct = os.path.join(wdir, 'Cargo.toml')
        txt = open(ct).read().replace('path = "/repo"', 'path = "%s"' % repo)
        with open(ct, 'w') as f_:
            f_.write(txt)
        tdir += os.environ.get('VERIF_CACHE_TAG', '-alt')
    shutil.copy(os.path.join(repo, 'Cargo.lock'), os.path.join(wdir, 'Cargo.lock'))
    env = dict(os.environ)
    env.update({'CARGO_NET_OFFLINE': 'true', 'CARGO_TARGET_DIR': tdir})
    env.pop('RUSTC_WORKSPACE_WRAPPER', None)
    env.pop('RUSTFLAGS', None)
    p = subprocess.run(['cargo', '+nightly', 'test', '--doc', '--offline'], cwd=wdir, env=env, stdout=subprocess.PIPE, stderr=subprocess.STDOUT, text=True)
    return p.returncode, p.stdout


def rule_type_witnesses(ctx, only=None):
    r = RuleResult('TYPE', 'a violating user program fails to compile with the expected error code (E0277 Send/Sync bounds of both caches and of the unsafe impls, '
                   'E0599 insert bounds, E0502/E0499 borrow of the unsync cache by iter()/get(), E0624 Policy construction) while its twin, differing '
                   'only in the offending line, compiles and runs')
    key = 'witness_run'
    if key not in ctx.cache:
        ctx.cache[key] = run_witnesses()
    rc, out = ctx.cache[key]
    tests = re.findall(r'^test src/lib.rs - (\w+) \(line (\d+)\)( - compile fail)? \.\.\. (\w+)', out, re.M)
    if not tests:
        raise CheckFailure('TYPE: witness crate did not run:\n' + out[-1500:])
    for name, line, cf, res in tests:
        if only and not any(name.startswith(o) for o in only):
            continue
        kind = 'compile_fail' if cf else 'twin'
        r.instance(witness=name, kind=kind, result=res)
        if res != 'ok':
            if cf:
                r.violate('witness::' + name, 'witness-compiles', kind, 'the violating program of witness %s now compiles (or fails with a different error): the type-level '
                          'guarantee it pins is gone' % name, where='/verif/witness/src/lib.rs:%s' % line)
            else:
                r.violate('witness::' + name, 'twin-fails', kind, 'the well-typed twin of witness %s no longer compiles / runs' % name, where='/verif/witness/src/lib.rs:%s' % line)
    r.require_floor(20 if not only else 2, 'witness doctests')
    return r


def rule_type_iter(ctx):
    return rule_type_witnesses(ctx, only=('W7', 'W8', 'W9'))


def rule_type_policy(ctx):
    return rule_type_witnesses(ctx, only=('W10',))
