"""Rule families for termination / deadlock-freedom (C09): LOCK-order, PAIR-sync-flag,
AUTH-nonblocking, LOOP-bounded, LOOP-retry, CONST-logsizes, AUTH-housekeeper-lifetime."""
from collections import defaultdict

from .core import RuleResult, CheckFailure
from .kernel import norm, op_place, op_local, place_fields
from .symex import fmt, subterms

GUARD_TYPES = (
    ('std::sync::MutexGuard', 'std'), ('std::sync::RwLockReadGuard', 'std'), ('std::sync::RwLockWriteGuard', 'std'),
    ('dashmap::mapref::one::RefMut', 'shard'), ('dashmap::mapref::one::Ref', 'shard'),
    ('dashmap::mapref::multiple::RefMulti', 'shard'), ('dashmap::mapref::multiple::RefMutMulti', 'shard'),
    ('dashmap::mapref::entry::Entry', 'shard'), ('dashmap::mapref::entry::OccupiedEntry', 'shard'),
    ('dashmap::mapref::entry::VacantEntry', 'shard'), ('dashmap::iter::Iter', 'shard'),
    ('dashmap::iter::IterMut', 'shard'),
)
STD_ACQUIRE = {'std::sync::Mutex::lock', 'std::sync::RwLock::read', 'std::sync::RwLock::write',
               'std::sync::Mutex::try_lock', 'std::sync::RwLock::try_read', 'std::sync::RwLock::try_write'}
# DashMap methods: (acquires shard lock inside the call, closure args run under the lock)
DASHMAP_PREFIX = 'dashmap::DashMap::'
DASHMAP_ENTRY_PREFIX = 'dashmap::mapref::entry::Entry::'


def guard_kind(tys):
    if tys.startswith('&'):
        return None  # a reference to a guard does not own the lock
    for g, k in GUARD_TYPES:
        if g in tys:
            return k
    return None


class LockAnalysis:
    """Held-while-acquiring graph over lock classes."""

    def __init__(self, ctx):
        self.ctx = ctx
        self.prog = ctx.prog
        self.eff = ctx.eff
        self.acq_direct = {}     # nid -> set(class)
        self.edges = defaultdict(list)  # (held, acquired) -> [(nid, line, via)]
        self.guard_sites = []    # (nid, local, class, line)
        self._acq_trans = {}
        self._analyse()

    def class_of_receiver(self, b, arg):
        l = op_local(arg)
        if l is None:
            return None
        regs = [r for r in self.eff.points[b.nid].get(l, ()) if r[0] == 'field']
        if not regs:
            return None
        # innermost field region = the lock object
        # prefer a field whose declared type is a lock
        for r in regs:
            f = self._field_ty(r[1], r[2])
            if f and ('Mutex<' in f or 'RwLock<' in f):
                return '%s.%s' % (r[1].split('::')[-1], r[2])
        r = regs[0]
        return '%s.%s' % (r[1].split('::')[-1], r[2])

    def _field_ty(self, adt, name):
        a = self.prog.adts.get(adt)
        if not a:
            return None
        for v in a['variants']:
            for f in v['fields']:
                if f['name'] == name:
                    return f['ty']['s']
        return None

    def direct_acquires(self, b):
        out = []
        for bi, t in b.calls():
            targets, ext, passed = self.prog.call_targets(b, t)
            if not ext:
                continue
            if ext in STD_ACQUIRE:
                c = self.class_of_receiver(b, t['args'][0]) or 'lock:?'
                out.append((bi, t, c))
            elif ext.startswith(DASHMAP_PREFIX) or ext.startswith(DASHMAP_ENTRY_PREFIX):
                m = ext.split('::')[-1]
                if m in ('with_capacity_and_hasher', 'new', 'with_hasher', 'with_capacity', 'len', 'is_empty',
                         'hasher', 'capacity', 'shards', 'default'):
                    continue
                if ext.startswith(DASHMAP_ENTRY_PREFIX) and m in ('key',):
                    continue
                out.append((bi, t, 'shard'))
        return out

    def acquires_trans(self, nid, stack=()):
        if nid in self._acq_trans:
            return self._acq_trans[nid]
        if nid in stack:
            return set()
        b = self.prog.bodies[nid]
        s = {c for _, _, c in self.direct_acquires(b)}
        for c in self.prog.callees(nid):
            s |= self.acquires_trans(c, stack + (nid,))
        self._acq_trans[nid] = s
        return s

    def _analyse(self):
        prog = self.prog
        for nid, b in prog.bodies.items():
            self._body(b)

    def _guard_class_of_local(self, b, l, defs_class):
        return defs_class.get(l)

    def _body(self, b):
        prog = self.prog
        # which locals are guards, and of which class
        gl = {}
        for i, loc in enumerate(b.locals):
            k = guard_kind(loc['ty']['s'])
            if k:
                gl[i] = k
        if not gl and not self.direct_acquires(b):
            return
        # class per guard local: from defining call
        cls = {}
        direct = {bi: c for bi, t, c in self.direct_acquires(b)}
        changed = True
        rounds = 0
        while (changed or rounds <= 7) and rounds < 10:
            changed = False
            rounds += 1
            for l in gl:
                if l in cls:
                    continue
                for d in b.defs().get(l, []):
                    c = None
                    if d[0] == 'call':
                        bi = d[1]
                        t = d[3]
                        if bi in direct:
                            c = direct[bi]
                        else:
                            # guard passed through (expect/unwrap/map...) or returned by in-crate fn
                            for a in t['args']:
                                al = op_local(a)
                                if al in cls:
                                    c = cls[al]
                            if c is None and gl[l] == 'shard':
                                c = 'shard'
                            if c is None and rounds > 6:
                                targets, ext, _ = prog.call_targets(b, t)
                                c = 'lock:' + (ext or (targets[0] if targets else '?')).split('::')[-1]
                    else:
                        rv = d[3]['rv']
                        src = None
                        if rv['rv'] == 'use':
                            src = op_local(rv['op'])
                        elif rv['rv'] == 'aggr':
                            for o in rv['ops']:
                                if op_local(o) in cls:
                                    src = op_local(o)
                        if src in cls:
                            c = cls[src]
                        elif gl[l] == 'shard':
                            c = 'shard'
                    if c:
                        cls[l] = c
                        changed = True
                        break
            # parameters that are guards (closures receive RefMut etc.)
            for l in gl:
                if l not in cls and 1 <= l <= b.argc:
                    cls[l] = 'shard' if gl[l] == 'shard' else 'lock:param'
                    changed = True
        for l, c in cls.items():
            self.guard_sites.append((b.nid, l, c, b.line))
        # forward may-hold dataflow over guard locals
        succ, pred, seen = b.cfg()
        IN = {i: set() for i in seen}
        OUT = {i: set() for i in seen}
        order = sorted(seen)
        held_params = {l for l in cls if 1 <= l <= b.argc}
        IN[0] = set(held_params)

        def moved_locals(o):
            if o.get('k') == 'move':
                return [o['pl']['l']]
            return []

        def transfer(i, cur, record):
            cur = set(cur)
            blk = b.blocks[i]
            for s in blk['stmts']:
                if s['st'] != 'assign':
                    continue
                rv = s['rv']
                srcs = []
                if rv['rv'] == 'use':
                    srcs = moved_locals(rv['op'])
                elif rv['rv'] == 'aggr':
                    for o in rv['ops']:
                        srcs += moved_locals(o)
                for m in srcs:
                    cur.discard(m)
                dl = s['pl']['l']
                if dl in cls and not s['pl'].get('p'):
                    cur.add(dl)
            t = blk['term']
            if t['t'] == 'drop':
                pl = t['pl']
                if not pl.get('p'):
                    cur.discard(pl['l'])
            elif t['t'] == 'call':
                if record:
                    record(i, t, set(cur))
                for a in t['args']:
                    for m in moved_locals(a):
                        cur.discard(m)
                dl = t['dest']['l']
                if dl in cls and not t['dest'].get('p'):
                    cur.add(dl)
            return cur

        # edge sensitivity: `match opt_guard { None => .. }` -- on the None edge nothing is held
        def none_edges(i):
            """{successor: set(guard locals known to be None on that edge)}"""
            t = b.blocks[i]['term']
            if t['t'] != 'switch':
                return {}
            dl = op_local(t['discr'])
            if dl is None:
                return {}
            src = None
            for blk_s in b.blocks[i]['stmts']:
                if blk_s['st'] == 'assign' and blk_s['pl']['l'] == dl and blk_s['rv']['rv'] == 'discr' and not blk_s['rv']['pl'].get('p'):
                    src = blk_s['rv']['pl']['l']
            if src is None or src not in cls:
                return {}
            tys = b.local_ty(src)['s']
            if not (tys.startswith('std::option::Option<') or tys.startswith('std::result::Result<')):
                return {}
            out = {}
            if tys.startswith('std::option::Option<'):
                for a in t['arms']:
                    if a[0] == 0:
                        out.setdefault(a[1], set()).add(src)
                if all(a[0] != 0 for a in t['arms']) and len(t['arms']) == 1:
                    out.setdefault(t['otherwise'], set()).add(src)
            return out

        def out_on_edge(p, i):
            ne = none_edges(p).get(i)
            return OUT[p] - ne if ne else OUT[p]

        changed = True
        while changed:
            changed = False
            for i in order:
                if i != 0:
                    new_in = set()
                    for p in pred.get(i, []):
                        new_in |= out_on_edge(p, i)
                else:
                    new_in = IN[0]
                new_out = transfer(i, new_in, None)
                if new_in != IN[i] or new_out != OUT[i]:
                    IN[i], OUT[i] = new_in, new_out
                    changed = True

        def record(i, t, held):
            if not held:
                return
            targets, ext, passed = prog.call_targets(b, t)
            acquired = set()
            via = ext or (targets[0] if targets else '?')
            # a guard moved into the call is not "held across" it unless the call is a pass-through
            moved = set()
            for a in t['args']:
                moved |= set(moved_locals(a))
            held_eff = {h for h in held if h not in moved}
            if not held_eff:
                return
            if i in direct:
                acquired.add(direct[i])
            for tg in targets:
                acquired |= self.acquires_trans(tg)
            for c in passed:
                acquired |= self.acquires_trans(c)
            for h in held_eff:
                for a in acquired:
                    self.edges[(cls[h], a)].append((b.nid, t.get('line'), via))

        for i in order:
            transfer(i, IN[i], record)
        # closures run under the shard lock by DashMap entry/remove_if/alter APIs
        for bi, t in b.calls():
            targets, ext, passed = prog.call_targets(b, t)
            if ext and (ext.startswith(DASHMAP_PREFIX) or ext.startswith(DASHMAP_ENTRY_PREFIX)) and passed:
                for c in passed:
                    for a in self.acquires_trans(c):
                        self.edges[('shard', a)].append((b.nid, t.get('line'), 'closure %s under %s' % (c.split('::')[-1], ext.split('::')[-1])))

    def cycles(self):
        g = defaultdict(set)
        for (h, a) in self.edges:
            g[h].add(a)
        cyc = []
        for (h, a) in self.edges:
            if h == a:
                cyc.append([h, a])
        # simple DFS cycle detection for longer cycles
        color = {}
        stack = []

        def dfs(u):
            color[u] = 1
            stack.append(u)
            for v in sorted(g.get(u, ())):
                if v == u:
                    continue
                if color.get(v) == 1:
                    cyc.append(stack[stack.index(v):] + [v])
                elif color.get(v) is None:
                    dfs(v)
            stack.pop()
            color[u] = 2

        for n in sorted(g):
            if color.get(n) is None:
                dfs(n)
        return cyc


def rule_lock_order(ctx):
    r = RuleResult('LOCK-order', 'the held-while-acquiring graph over lock classes (std Mutex/RwLock fields, DashMap shard '
                   'locks incl. closures run under them) is acyclic, self-edges included')
    la = ctx.cache.get('lock') or LockAnalysis(ctx)
    ctx.cache['lock'] = la
    for (h, a), sites in sorted(la.edges.items()):
        r.instance(edge='%s -> %s' % (h, a), sites=len(sites), example='%s:%s via %s' % (sites[0][0], sites[0][1], sites[0][2]))
    classes = sorted({c for _, _, c, _ in la.guard_sites} | {a for (_, a) in la.edges})
    r.notes.append('lock classes: ' + ', '.join(classes))
    sync_on = any(n.startswith('sync::') for n in ctx.prog.bodies)
    if sync_on:
        need = {'Inner.deques', 'shard'}
        if not need <= set(classes):
            raise CheckFailure('LOCK-order: expected lock classes %s not found (found %s)' % (sorted(need), classes))
        r.require_floor(8, 'held-while-acquiring edges')
    for cyc in la.cycles():
        # report each edge of the cycle with its site
        edge_sites = []
        for x, y in zip(cyc, cyc[1:]):
            s = la.edges[(x, y)][0]
            edge_sites.append('%s -> %s at %s (line %s) via %s' % (x, y, s[0], s[1], s[2]))
        first = la.edges[(cyc[0], cyc[1])][0]
        # name the edge that is new w.r.t. the maintenance order (the one not starting at the top)
        r.violate(first[0], 'lock-cycle', ' -> '.join(cyc),
                  'lock order cycle: ' + '; '.join(edge_sites), where=ctx.where(first[0], first[1]), path=edge_sites,
                  expected='no lock of class %s acquired while %s is held' % (cyc[1], cyc[0]))
    return r


# ------------------------------------------------------------------------------------------------


def _flag_sites(ctx, adt, field):
    """(nid, method) of every atomic write call whose receiver is adt.field."""
    out = []
    prog = ctx.prog
    for nid, b in prog.bodies.items():
        for bi, t in b.calls():
            targets, ext, _ = prog.call_targets(b, t)
            if not ext or not ext.startswith('std::sync::atomic::'):
                continue
            m = ext.split('::')[-1]
            if m in ('load', 'new', 'default'):
                continue
            l = op_local(t['args'][0]) if t['args'] else None
            regs = ctx.eff.points[nid].get(l, ())
            if any(r[:3] == ('field', adt, field) for r in regs):
                out.append((nid, m, t.get('line')))
    return out


def rule_pair_sync_flag(ctx):
    r = RuleResult('PAIR-sync-flag', 'every normal path from a successful set of Housekeeper.is_sync_running '
                   '(CAS false->true / store(true)) to return passes a store(false); nothing else writes the flag')
    ADT, FIELD = 'common::concurrent::housekeeper::Housekeeper', 'is_sync_running'
    if not ctx.has_sync:
        return r
    if not any(f_['name'] == FIELD for v_ in (ctx.prog.adts.get(ADT) or {'variants': []})['variants'] for f_ in v_['fields']):
        # the flag was moved into a nested struct of the housekeeper: the housekeeper's field that holds that struct takes its place
        from .roles import sync_flag_fields
        ff = sync_flag_fields(ctx.prog)
        holder = [f_['name'] for v_ in (ctx.prog.adts.get(ADT) or {'variants': []})['variants'] for f_ in v_['fields']
                  if any(norm(str((f_['ty'] or {}).get('adt') or '')) == a_ for a_, _n in ff)]
        if len(ff) == 1 and len(holder) == 1:
            FIELD = holder[0]
    fdef = ctx.adt_field(ADT, FIELD)
    sites = _flag_sites(ctx, ADT, FIELD)
    fns = sorted({s[0] for s in sites})
    wrappers = set()
    fty = norm(str((fdef.get('ty') or {}).get('adt') or ''))
    if not fns and fty in ctx.prog.adts:
        # the flag is wrapped in a crate-local type: its writers are the methods of that type that write the atomic inside; the pairing is
        # judged in the functions that call them on Housekeeper.is_sync_running, with those methods stepped into
        for v_ in ctx.prog.adts[fty]['variants']:
            for f_ in v_['fields']:
                if str((f_.get('ty') or {}).get('s', '')).startswith('std::sync::atomic::'):
                    for s_ in _flag_sites(ctx, fty, f_['name']):
                        sites.append(s_)
                        wrappers.add(ctx.prog.bodies[s_[0]].root or s_[0])
        cl = ctx.prog.callers()
        fns = sorted({(ctx.prog.bodies[c_].root or c_) for w_ in wrappers for c_ in cl.get(w_, ()) if (ctx.prog.bodies[c_].root or c_) not in wrappers})
    if not fns:
        raise CheckFailure('PAIR-sync-flag: no writer of %s.%s found' % (ADT, FIELD))
    # the set and the reset packaged as small private helpers (`try_acquire()` / `release()`): the pairing is judged in the functions that call
    # them, with the helpers stepped into (a helper is a flag writer that does not itself run the maintenance)
    from .roles import get_roles as _gr_
    _maint = _gr_(ctx).maintenance
    _cl = ctx.prog.callers()
    _helpers = {f for f in fns if ctx.prog.bodies[f].kind != 'closure' and not ctx.prog.bodies[f].loops() and len(ctx.prog.bodies[f].blocks) <= 14 and
                _cl.get(f) and not (ctx.prog.reachable_from([f]) & _maint)}
    if _helpers and len(_helpers) < len(fns) + 2:
        _callers = {(ctx.prog.bodies[c_].root or c_) if ctx.prog.bodies[c_].kind == 'closure' else c_ for h_ in _helpers for c_ in _cl.get(h_, ())} - _helpers
        if _callers:
            wrappers |= _helpers
            fns = sorted((set(fns) - _helpers) | _callers)

    def is_flag(term):
        return any(x[0] == 'fld' and x[2] == FIELD for x in subterms(term) if isinstance(x, tuple) and x)

    npaths = 0
    for nid in fns:
        sx = ctx.symex(inline_depth=2, inline_pred=(lambda n_, bb, d, _w=frozenset(wrappers): True if n_ in _w else None))
        paths = sx.run(nid)
        for p in paths:
            if p.diverged:
                continue
            npaths += 1
            held = False
            held_line = None
            for e in p.events:
                if e[0] != 'call' or not str(e[1]).startswith('std::sync::atomic::'):
                    continue
                if not e[2] or not is_flag(e[2][0]):
                    continue
                m = e[1].split('::')[-1]
                if m in ('compare_exchange', 'compare_exchange_weak'):
                    new = e[2][2] if len(e[2]) > 2 else None
                    # did this path take the Ok branch?
                    res = e[6] if len(e) > 6 else ('call', e[1], e[2])
                    ok = None
                    if ('discr', res) in p.known:
                        ok = (p.known[('discr', res)] == 0)
                    for c, v in p.conds:
                        if c == ('discr', res):
                            ok = (v == 0)
                        # `.is_ok()` / `.is_err()` of the result: eq(k, tag) literals
                        if isinstance(c, tuple) and c and c[0] == 'cmp' and c[1] in ('eq', 'ne') and ('discr', res) in (c[2], c[3]) and isinstance(v, bool):
                            k_ = c[3] if c[2] == ('discr', res) else c[2]
                            if k_ in (('c', 0), ('c', 1)):
                                is_tag = v if c[1] == 'eq' else (not v)
                                ok = is_tag if k_ == ('c', 0) else (not is_tag)
                    if new == ('c', True) and ok:
                        held, held_line = True, e[3]
                    elif new == ('c', False) and ok:
                        held = False
                elif m in ('store', 'swap'):
                    val = e[2][1] if len(e[2]) > 1 else None
                    if val == ('c', True):
                        held, held_line = True, e[3]
                    elif val == ('c', False):
                        if held:
                            ctx.cache['pair_saw_reset'] = True
                        held = False
                    else:
                        held = True; held_line = e[3]
                else:
                    held = True; held_line = e[3]
            r.instance(function=nid, path_conditions=[fmt(c) + '==' + str(v) for c, v in p.conds][:6], flag_left_set=held)
            if held:
                r.violate(nid, 'flag-not-reset', 'return-with-flag-set',
                          'a normal path returns with is_sync_running still true (set at line %s): maintenance would '
                          'never run again' % held_line, where=ctx.where(nid, held_line),
                          path=[fmt(c) + ' == ' + str(v) for c, v in p.conds],
                          expected='store(false) on every path after the successful compare_exchange')
    r.require_floor(2, 'paths through the flag-writing function(s)')
    if not ctx.cache.get('pair_saw_reset') and not r.violations:
        raise CheckFailure('PAIR-sync-flag: no path with a successful set followed by a reset was recognised (the rule would pass vacuously)')
    r.notes.append('writers of the flag: %s' % ', '.join('%s:%s' % (n, m) for n, m, _ in sites))
    r.assumptions.append('unwind paths (a panicking user Hash/Eq/Drop inside maintenance) are not analysed')
    return r


BLOCKING = ('crossbeam_channel::Sender::send', 'crossbeam_channel::Receiver::recv', 'crossbeam_channel::Receiver::recv_timeout',
            'crossbeam_channel::Receiver::recv_deadline', 'crossbeam_channel::Sender::send_timeout',
            'crossbeam_channel::Sender::send_deadline', 'std::sync::Condvar::wait', 'std::sync::Condvar::wait_while',
            'std::sync::Condvar::wait_timeout', 'std::thread::park', 'std::thread::park_timeout',
            'std::sync::Barrier::wait', 'std::thread::JoinHandle::join', 'crossbeam_channel::Select::select',
            'crossbeam_channel::Receiver::iter', 'std::sync::mpsc::Receiver::recv', 'std::sync::mpsc::Sender::send',
            'std::sync::mpsc::SyncSender::send', 'crossbeam_utils::sync::Parker::park', 'std::thread::yield_now',
            'std::sync::Once::call_once', 'std::sync::OnceLock::get_or_init')


def rule_auth_nonblocking(ctx):
    r = RuleResult('AUTH-nonblocking', 'no blocking channel/condvar/park primitive is called anywhere; channel ops are '
                   'try_send/try_recv only; thread::sleep occurs only inside the write-retry loop; a full read queue '
                   'maps to success (the read op is dropped)')
    prog = ctx.prog
    chan_calls = 0
    for nid, b in prog.bodies.items():
        for bi, t in b.calls():
            targets, ext, _ = prog.call_targets(b, t)
            if not ext:
                continue
            if ext.startswith('crossbeam_channel::') or ext.startswith('std::thread::') or ext.startswith('std::sync::Condvar'):
                chan_calls += 1
                r.instance(function=nid, call=ext, line=t.get('line'))
            if ext in BLOCKING:
                r.violate(nid, 'blocking-call', ext, 'blocking primitive %s called' % ext, where=ctx.where(nid, t.get('line')),
                          expected='try_send / try_recv only')
            if ext == 'std::thread::sleep':
                # must be inside a loop that also contains a try_send
                inloop = False
                for h, body, _ in b.loops():
                    if bi in body:
                        names = set()
                        for x in body:
                            tt = b.blocks[x]['term']
                            if tt['t'] == 'call':
                                _, e2, _ = prog.call_targets(b, tt)
                                if e2:
                                    names.add(e2)
                        if 'crossbeam_channel::Sender::try_send' in names:
                            inloop = True
                if not inloop:
                    r.violate(nid, 'sleep-outside-retry', ext, 'thread::sleep outside the write-retry loop',
                              where=ctx.where(nid, t.get('line')))
    if any(n.startswith('sync::') for n in prog.bodies):
        r.require_floor(6, 'channel / thread primitive call sites')
    # read path: Full must not be turned into an error or a retry
    rec = [b for b in prog.bodies.values() if any(
        (prog.call_targets(b, t)[1] == 'crossbeam_channel::Sender::try_send') for _, t in b.calls())]
    for b in rec:
        loops = b.loops()
        if loops:
            continue  # the write-retry function: handled by LOOP-retry
        sx = ctx.symex(inline_depth=1)
        for p in sx.run(b.nid):
            if p.diverged:
                continue
            sends = [e for e in p.events if e[0] == 'call' and e[1] == 'crossbeam_channel::Sender::try_send']
            if not sends:
                continue
            res = sends[0][6] if len(sends[0]) > 6 else ('call', sends[0][1], sends[0][2])
            full = None
            for c, v in p.conds:
                if isinstance(c, tuple) and c[0] == 'discr' and len(c) > 1 and c[1] == ('payload', res, 'Err', 0):
                    full = v
            ret = p.ret
            r.instance(function=b.nid, try_send_result_tag=str(full), returns=fmt(ret) if ret else None)
            if full == 0 and not (ret and ret[0] == 'aggr' and ret[2] == 'Ok'):
                r.violate(b.nid, 'read-full-not-dropped', 'TrySendError::Full',
                          'a full read queue is not mapped to Ok(()): the get would fail or block', where=ctx.where(b.nid),
                          expected='Err(Full(_)) => Ok(())')
    return r


# ------------------------------------------------------------------------------------------------
# loops

FINITE_ITER_HINTS = ('std::ops::Range', 'std::slice::Iter', 'std::slice::IterMut', 'std::vec::IntoIter',
                     'smallvec::IntoIter', 'std::collections::hash_map::Iter', 'dashmap::iter::Iter',
                     'std::iter::Map', 'std::iter::Filter', 'std::collections::hash_map::Keys',
                     'std::collections::hash_map::Values', 'std::array::IntoIter', 'std::iter::Enumerate',
                     'std::iter::Zip', 'std::iter::Take', 'std::iter::Rev', 'std::iter::Copied', 'std::iter::Cloned')


CONSUMING_ADAPTORS = ('next', 'find', 'find_map', 'position', 'any', 'all', 'nth', 'last', 'count', 'fold', 'for_each')


def _loop_driver(ctx, b, h, body):
    """Classify what bounds the loop. Returns (kind, detail)."""
    prog = ctx.prog
    succ, pred, seen = b.cfg()
    # (a) iterator-driven: a block in the loop calls Iterator::next on a finite std iterator and the
    #     loop exits when it yields None
    for x in sorted(body):
        t = b.blocks[x]['term']
        if t['t'] != 'call':
            continue
        targets, ext, _ = prog.call_targets(b, t)
        callee = norm(t.get('callee') or '')
        name = ext or (targets[0] if targets else callee)
        if name.endswith('::next') and t['args']:
            st = t.get('self_ty', {}).get('s', '')
            al = op_local(t['args'][0])
            aty = b.local_ty(al)['s'] if al is not None else ''
            tys = st + ' ' + aty
            heads = [x.replace('&mut ', '').replace('&', '').strip() for x in (st, aty)]
            finite = any(h.startswith(FINITE_ITER_HINTS) for h in heads if h)
            if not finite and targets:
                # in-crate Iterator wrapper: finite if its own `next` only loops over finite std iterators
                finite = all(_finite_wrapper(ctx, tg) for tg in targets)
            if finite:
                # exit on None: the successor of this call switches on the discriminant and one arm leaves the loop
                nb = t.get('target')
                leaves = False
                for y in b.reach(nb, avoid=()) if nb is not None else ():
                    pass
                tt = b.blocks[nb]['term'] if nb is not None else None
                # follow straight-line to the switch
                cur = nb
                hops = 0
                while cur is not None and hops < 6:
                    tt_ = b.blocks[cur]['term']
                    if tt_['t'] == 'goto':
                        cur = tt_['target']; hops += 1
                    elif tt_['t'] == 'call' and str(prog.call_targets(b, tt_)[1] or '').endswith(('Try>::branch', 'Try::branch')) and tt_.get('target') is not None:
                        cur = tt_['target']; hops += 1      # `iter.next()?`: the None case is the Break arm of the switch that follows
                    else:
                        break
                if cur is not None and b.blocks[cur]['term']['t'] == 'switch':
                    for s in b.succs(cur):
                        if s not in body:
                            leaves = True
                        else:
                            # an arm that only leads out of the loop
                            r = b.reach(s, avoid={h})
                            if not (r & {e for e in body if h in succ.get(e, [])}):
                                leaves = True
                if leaves:
                    return 'iterator', tys.strip()[:100]
    # (b) counter: an exit condition compares a local c with a loop-invariant operand and every
    #     header->back-edge path increments c
    exits = [(x, s) for x in body for s in succ.get(x, []) if s not in body]
    back_src = [x for x in body if h in succ.get(x, [])]
    inc_blocks = {}
    for x in body:
        for s in b.blocks[x]['stmts']:
            if s['st'] == 'assign' and not s['pl'].get('p') and s['rv']['rv'] == 'binop' and s['rv']['op'].startswith('Add'):
                a, c = s['rv']['a'], s['rv']['b']
                if op_local(a) is not None and c.get('k') == 'const' and c.get('val', 0) > 0:
                    # AddWithOverflow into tuple temp, then c = tmp.0
                    inc_blocks.setdefault(op_local(a), set()).add(x)
    for x, s in exits:
        t = b.blocks[x]['term']
        if t['t'] != 'switch':
            continue
        dl = op_local(t['discr'])
        if dl is None:
            continue
        # find comparison defining dl inside the loop
        for d in b.defs().get(dl, []):
            if d[0] == 'assign' and d[1] in body and d[3]['rv']['rv'] == 'binop' and d[3]['rv']['op'] in ('Lt', 'Le', 'Gt', 'Ge'):
                for side in ('a', 'b'):
                    cl = op_local(d[3]['rv'][side])
                    if cl is None:
                        continue
                    # resolve copies: cl = copy c
                    roots = {cl}
                    for dd in b.defs().get(cl, []):
                        if dd[0] == 'assign' and dd[3]['rv']['rv'] == 'use' and op_local(dd[3]['rv']['op']) is not None:
                            roots.add(op_local(dd[3]['rv']['op']))
                    for c in roots:
                        if c in inc_blocks:
                            inc = inc_blocks[c]
                            # every path header -> back edge passes an increment block
                            ok = True
                            for bs in back_src:
                                reach = b.reach(h, avoid=inc)
                                if bs in reach and bs not in inc:
                                    ok = False
                            if ok:
                                return 'counter', 'local _%d (%s) incremented on every iteration, compared at exit' % (c, b.local_name(c))
    return None, None


def _finite_wrapper(ctx, nid, _stack=()):
    b = ctx.prog.bodies.get(nid)
    if b is None or b.impl_trait != 'std::iter::Iterator' or nid in _stack:
        return False
    loops = b.loops()
    for h, body, _ in loops:
        kind, _d = _loop_driver(ctx, b, h, body)
        if kind != 'iterator':
            return False
    if loops:
        return True
    # loop-free wrapper: finite if it advances a finite std iterator
    for bi, t in b.calls():
        targets, ext, _ = ctx.prog.call_targets(b, t)
        name = ext or ''
        # `next`, or a consuming adaptor that pulls items until a predicate holds / the iterator is exhausted
        if (name.endswith('::next') or (name.startswith('std::iter::Iterator::') and name.split('::')[-1] in CONSUMING_ADAPTORS)) and t['args']:
            al = op_local(t['args'][0])
            heads = [x.replace('&mut ', '').replace('&', '').strip() for x in (t.get('self_ty', {}).get('s', ''), b.local_ty(al)['s'] if al is not None else '')]
            if any(h.startswith(FINITE_ITER_HINTS) for h in heads if h):
                return True
    # loop-free counter: every call that yields an item has found an integer field of the iterator below a constant bound and leaves it
    # incremented by a positive constant (`if self.depth >= DEPTH { return None } .. self.depth += 1`)
    from .symex import PathLimit as _PL4, subterms as _st
    try:
        ps = [p for p in ctx.symex(inline_depth=1, loop_visits=2).run(nid) if not p.diverged]
    except _PL4:
        return False
    some = [p for p in ps if isinstance(p.ret, tuple) and p.ret and p.ret[0] == 'aggr' and p.ret[2] == 'Some']
    if not some or not any(p.ret == ('aggr', 'std::option::Option', 'None', ()) for p in ps):
        return False
    for p in some:
        ok = False
        for e in p.events:
            if e[0] == 'write' and isinstance(e[1], tuple) and e[1][0] == 'fld' and e[1][1] == ('param', 1):
                v, f0 = e[2], e[1]
                inc = isinstance(v, tuple) and v and v[0] == 'bin' and v[1] in ('Add', 'AddUnchecked') and v[2] == f0 and isinstance(v[3], tuple) and v[3][0] == 'c' and \
                    isinstance(v[3][1], int) and v[3][1] > 0
                below = any(isinstance(c, tuple) and c and c[0] == 'cmp' and (
                    (c[1] == 'le' and val is False and c[3] == f0 and isinstance(c[2], tuple) and c[2][0] == 'c') or
                    (c[1] == 'lt' and val is True and c[2] == f0 and isinstance(c[3], tuple) and c[3][0] == 'c')) for c, val in p.conds)
                if inc and below:
                    ok = True
        if not ok:
            return False
    return True


def _must_pass(b, h, body, S):
    """True if every path from header h around the loop back to h passes through a block in S."""
    succ, pred, seen = b.cfg()
    back_src = [x for x in body if h in succ.get(x, [])]
    if h in S:
        return True
    reach = set()
    st = [h]
    while st:
        x = st.pop()
        if x in reach or x in S or x not in body:
            continue
        reach.add(x)
        st.extend(succ.get(x, []))
    return not any(bs in reach for bs in back_src)


def _blocks_calling(ctx, b, body, pred_fn):
    out = set()
    for x in body:
        t = b.blocks[x]['term']
        if t['t'] == 'call':
            targets, ext, passed = ctx.prog.call_targets(b, t)
            if pred_fn(targets, ext, passed, t):
                out.add(x)
    return out


# Loops that are not iterator- or counter-driven: function -> (progress effect every iteration must
# have, reason).  Keyed by function and role, never by position.
PROGRESS_TABLE = {
    '<common::deque::Deque as std::ops::Drop>::drop':
        ('pop', 'each iteration pops the front node: list length strictly decreases'),
    '<<common::deque::Deque as std::ops::Drop>::drop::DropGuard as std::ops::Drop>::drop':
        ('pop', 'each iteration pops the front node: list length strictly decreases'),
    'unsync::cache::Cache::admit':
        ('advance', 'each iteration breaks or advances the cursor along a finite acyclic list'),
    'sync::base_cache::Inner::admit':
        ('advance', 'each iteration breaks or advances the cursor along a finite acyclic list'),
    'sync::cache::Cache::schedule_write_op':
        ('housekeeping', 'the only intended unbounded retry: every iteration runs the pending maintenance itself'),
}


def _no_two_empty_trips(ctx, b, h, is_progress):
    """Path-sensitive form of 'every iteration makes progress' for loops whose iterations differ by a state variable (state machines): on
    every explored iteration sequence of the body (5 visits of the header, abandoned prefixes included) no two consecutive trips go by
    without a progress event.  None when it cannot be decided."""
    from .symex import PathLimit as _PL3
    try:
        seqs = ctx.symex(inline_depth=1, loop_visits=5, trip_events=True, emit_cut=True, inline_pred=lambda n_, bb, d: False).run(b.nid)
    except _PL3:
        return None
    trips_seen = 0
    for p in seqs:
        empty, has = 0, True
        for e in p.events:
            if e[0] == 'trip' and e[2] == h:
                trips_seen += 1
                empty = 0 if has else empty + 1
                if empty >= 2:
                    return False
                has = False
            elif is_progress(e):
                has = True
    return True if trips_seen >= 4 else None


def rule_loops(ctx):
    r = RuleResult('LOOP-bounded', 'every loop is driven by a finite std iterator or a counter incremented on every '
                   'iteration, or is a listed loop whose every iteration performs its progress step '
                   '(pop / cursor advance / housekeeping call)')
    prog, eff = ctx.prog, ctx.eff
    reach_try_sync = None
    for nid, b in sorted(prog.bodies.items()):
        for h, body, back in b.loops():
            kind, detail = _loop_driver(ctx, b, h, body)
            line = b.blocks[h]['term'].get('line')
            if kind:
                r.instance(function=nid, header='bb%d' % h, driver=kind, detail=detail)
                continue
            from .roles import named as _named
            ptab = dict(PROGRESS_TABLE)
            for k_, role_ in (('unsync.admit', 'unsync::cache::Cache::admit'), ('sync.admit', 'sync::base_cache::Inner::admit')):
                if role_ in ptab:
                    ptab[_named(ctx, k_)] = ptab[role_]
            from .roles import write_scheduler as _ws
            if nid in _ws(ctx) and 'sync::cache::Cache::schedule_write_op' in ptab:
                ptab[nid] = ptab['sync::cache::Cache::schedule_write_op']
            ent = ptab.get(nid)
            if not ent:
                r.instance(function=nid, header='bb%d' % h, driver='UNCLASSIFIED')
                r.violate(nid, 'unbounded-loop', 'loop', 'loop is neither iterator- nor counter-driven and has no listed '
                          'progress argument', where=ctx.where(nid, line),
                          expected='finite iterator, counter with dominating bound, or a PROGRESS_TABLE entry')
                continue
            role, reason = ent
            if role == 'pop':
                S = _blocks_calling(ctx, b, body, lambda tg, ext, ps, t: any(
                    ('write', 'common::deque::Deque', 'head') in eff.transitive(x) for x in tg))
            elif role == 'advance':
                # the cursor is advanced by a direct call of the node's successor accessor, or by next() of an
                # iter::successors(..) whose successor closure is that accessor
                from .roles import get_roles as _gr
                _succ_role = _gr(ctx).succ      # the successor accessor by role: also a thin wrapper around an accessor trait of the node pointer
                adv_clo = {c for c in prog.closures_of.get(nid, []) if ('read', 'common::deque::DeqNode', 'next') in eff.transitive(c)}
                succ_iter = any(ext_ == 'std::iter::successors' and set(ps_) & adv_clo for _bi, t_ in b.calls() for _tg, ext_, ps_ in [prog.call_targets(b, t_)])
                # ... or such an iterator is built by a helper of the list module (a lazy node iterator)
                for _bi, t_ in b.calls():
                    for tg_ in prog.call_targets(b, t_)[0]:
                        tb_ = prog.bodies[tg_]
                        if str(tb_.locals[0]['ty'].get('adt') or '') == 'std::iter::Successors' and any(
                                ('read', 'common::deque::DeqNode', 'next') in eff.transitive(c_) for c_ in prog.closures_of.get(tg_, [])):
                            succ_iter = True
                # (the accessor may be wrapped: an in-crate iterator's next() that calls it counts through its own small body)
                S = _blocks_calling(ctx, b, body, lambda tg, ext, ps, t: any(
                    ('read', 'common::deque::DeqNode', 'next') in eff.direct.get(x, ()) or x in _succ_role or
                    (prog.bodies[x].name == 'next' and not prog.bodies[x].loops() and len(prog.bodies[x].blocks) <= 25 and ('read', 'common::deque::DeqNode', 'next') in eff.transitive(x))
                    for x in tg) or
                    (succ_iter and ext == '<std::iter::Successors as std::iter::Iterator>::next'))
                # the advanced cursor must be the value the loop consumes (assigned to the scanned local)
            elif role == 'housekeeping':
                def hk(tg, ext, ps, t):
                    for x in tg:
                        if any(y.endswith('housekeeper::Housekeeper::try_sync') for y in prog.reachable_from([x])):
                            return True
                    return False
                S = _blocks_calling(ctx, b, body, hk)
            ok = bool(S) and _must_pass(b, h, body, S)
            if not ok and S and role == 'housekeeping':
                hk_fns = {x for x in prog.bodies if any(y.endswith('housekeeper::Housekeeper::try_sync') for y in prog.reachable_from([x]))}
                if _no_two_empty_trips(ctx, b, h, lambda e: e[0] == 'call' and e[1] in hk_fns):
                    ok = True
                    reason = reason + ' [decided on iteration sequences: the iterations differ by a state variable, no two consecutive ones skip the step]'
            r.instance(function=nid, header='bb%d' % h, driver='listed:' + role, reason=reason, progress_blocks=sorted(S), holds=ok)
            if not ok:
                r.violate(nid, 'loop-without-progress', role,
                          'a path around the loop skips its progress step (%s): the loop can spin forever' % role,
                          where=ctx.where(nid, line), expected=reason)
    sync_on = any(n.startswith('sync::') for n in prog.bodies)
    r.require_floor(20 if sync_on else 9, 'loops')
    return r


def rule_loop_retry(ctx):
    r = RuleResult('LOOP-retry', 'in the write-scheduling loop every retry (Full arm) keeps the op, and each iteration '
                   'reaches Housekeeper::try_sync before try_send; Ok leaves the loop; Disconnected returns Err')
    prog = ctx.prog
    fns = [b for b in prog.bodies.values() if b.loops() and any(
        prog.call_targets(b, t)[1] == 'crossbeam_channel::Sender::try_send' for _, t in b.calls())]
    if not fns:
        if any(n.startswith('sync::') for n in prog.bodies):
            raise CheckFailure('LOOP-retry: no loop around Sender::try_send found (write-scheduling role missing)')
        return r
    for b in fns:
        for h, body, back in b.loops():
            sends = [x for x in body if b.blocks[x]['term']['t'] == 'call' and
                     prog.call_targets(b, b.blocks[x]['term'])[1] == 'crossbeam_channel::Sender::try_send']
            if not sends:
                continue

            def hk(tg, ext, ps, t):
                return any(any(y.endswith('housekeeper::Housekeeper::try_sync') for y in prog.reachable_from([x])) for x in tg)
            S = _blocks_calling(ctx, b, body, hk)
            ok = bool(S) and _must_pass(b, h, body, S)
            # the housekeeping call must come before the send in every iteration: send blocks not reachable
            # from header without passing S
            before = True
            reach = b.reach(h, avoid=S)
            if any(s in reach for s in sends):
                before = False
            if not ok or not before:
                # the control-flow graph alone does not show it (e.g. a state machine: `loop { state = match state { Ready => try, Full => wait .. } }`):
                # decide on the explored iteration sequences instead -- every try_send has the housekeeping call between it and the previous
                # try_send (or the start), and no two consecutive trips go by without one
                from .symex import PathLimit as _PL2
                hk_fns = {x for x in prog.bodies if any(y.endswith('housekeeper::Housekeeper::try_sync') for y in prog.reachable_from([x]))}
                try:
                    seqs = ctx.symex(inline_depth=1, loop_visits=5, trip_events=True, emit_cut=True, inline_pred=lambda n_, bb, d: False).run(b.nid)
                except _PL2:
                    seqs = None
                if seqs:
                    good, trips_seen = True, 0
                    for p in seqs:
                        since_hk = False     # housekeeping seen since the last try_send / start
                        empty_trips = 0
                        trip_has = True
                        for e in p.events:
                            if e[0] == 'trip' and e[2] == h:
                                trips_seen += 1
                                empty_trips = 0 if trip_has else empty_trips + 1
                                if empty_trips >= 2:
                                    good = False
                                trip_has = False
                            elif e[0] == 'call' and e[1] in hk_fns:
                                since_hk, trip_has = True, True
                            elif e[0] == 'call' and e[1] == 'crossbeam_channel::Sender::try_send':
                                if not since_hk:
                                    good = False
                                since_hk = False
                    if good and trips_seen >= 4:
                        ok, before = True, True
                        r.instance(function=b.nid, header='bb%d' % h, decided_on='iteration sequences (state machine)', sequences=len(seqs))
            r.instance(function=b.nid, header='bb%d' % h, housekeeping_blocks=sorted(S), every_iteration=ok, before_send=before)
            if not ok or not before:
                r.violate(b.nid, 'retry-without-housekeeping', 'try_send-loop',
                          'the write-retry loop can iterate (or reach try_send) without running maintenance: with a full '
                          'queue and no other thread syncing it spins forever', where=ctx.where(b.nid, b.blocks[h]['term'].get('line')),
                          expected='apply_reads_writes_if_needed (-> Housekeeper::try_sync) inside the loop, before try_send')
            # op retained on Full: the value sent in the next iteration derives from the Full payload
        # every caller hands the scheduler the cache's own housekeeper (the retry loop makes progress only through it): a literal None turns the
        # loop into a spin on a full queue
        hk_params = [i for i in range(1, b.argc + 1) if 'Housekeeper' in b.local_ty(i)['s']]
        for hp in hk_params:
            for c_ in sorted({(prog.bodies[x].root or x) if prog.bodies[x].kind == 'closure' else x for x in prog.callers().get(b.nid, ())}):
                try:
                    # (field accessors are stepped into: `self.base.housekeeper()` is the field)
                    cps = ctx.symex(inline_depth=2, loop_visits=2, inline_pred=lambda n_, bb, d: True if (
                        n_ != b.nid and bb.kind != 'closure' and not bb.loops() and len(bb.blocks) <= 6 and
                        not any(e_[0] == 'write' for e_ in ctx.eff.transitive(n_)) and not ctx.eff.mut_params.get(n_)) else False).run(c_)
                except Exception:
                    continue
                seen_sites = set()
                for p in cps:
                    for e in p.events:
                        if e[0] == 'call' and e[1] == b.nid and len(e[2]) >= hp and (e[3], fmt(e[2][hp - 1])) not in seen_sites:
                            seen_sites.add((e[3], fmt(e[2][hp - 1])))
                            a_ = e[2][hp - 1]
                            okh = any(isinstance(x, tuple) and x and x[0] == 'fld' and 'housekeeper' in str(x[2]) for x in subterms(a_))
                            r.instance(function=c_, passes_housekeeper=fmt(a_)[:50], is_the_caches_own=okh)
                            if not okh:
                                r.violate(c_, 'retry-without-housekeeping', 'housekeeper-arg', '%s calls the write scheduler with `%s` instead of the cache\'s housekeeper: with a full write queue '
                                          'nobody runs the maintenance and the retry loop spins forever' % (c_, fmt(a_)[:50]), where=ctx.where(c_, e[3]),
                                          expected='self.base.housekeeper.as_ref()')
        # ... and the scheduler itself keeps using it: on EVERY trip of the retry loop the housekeeping call receives the scheduler's own housekeeper
        # parameter, never a local that an earlier trip has overwritten ("another thread is syncing, stop asking": that thread may return without
        # draining what is queued now, and nobody is left to run the maintenance)
        if hk_params:
            hk_fns2 = {x for x in prog.bodies if x != b.nid and any(y.endswith('housekeeper::Housekeeper::try_sync') for y in prog.reachable_from([x]))} | \
                {x for x in prog.bodies if x.endswith('housekeeper::Housekeeper::try_sync')}
            try:
                trips = ctx.symex(inline_depth=0, loop_visits=4, emit_cut=True, inline_pred=lambda n_, bb, d: False).run(b.nid)
            except Exception:
                trips = None
            if trips is None:
                raise CheckFailure('LOOP-retry: the write scheduler %s could not be explored for three trips of its retry loop' % b.nid)
            ncalls, bad_call = 0, None
            for p in trips:
                for e in p.events:
                    if e[0] == 'call' and e[1] in hk_fns2:
                        ncalls += 1
                        if not any(isinstance(x, tuple) and len(x) == 2 and x[0] == 'param' and x[1] in hk_params for a_ in e[2] for x in subterms(a_)):
                            bad_call = (e[1], e[3], [fmt(a_)[:40] for a_ in e[2]])
            r.instance(function=b.nid, clause='housekeeper-kept', housekeeping_calls_on_explored_trips=ncalls, every_call_gets_the_parameter=bad_call is None)
            if ncalls < 2 and bad_call is None:
                raise CheckFailure('LOOP-retry: fewer than two housekeeping calls seen on the explored trips of %s -- housekeeper-kept would pass vacuously' % b.nid)
            if bad_call:
                r.violate(b.nid, 'retry-without-housekeeping', 'housekeeper-dropped-in-loop', 'a trip of the write-retry loop in %s calls %s with %s -- not the scheduler\'s housekeeper '
                          'parameter: once the loop has replaced it (e.g. by None after a failed try_sync) a full queue is never drained by this writer, and if the '
                          'thread that was syncing returns without another run the insert never returns' % (b.nid, bad_call[0].split('::')[-1], bad_call[2]),
                          where=ctx.where(b.nid, bad_call[1]), expected='apply_reads_writes_if_needed(inner, ch, now, housekeeper) with the unmodified parameter on every trip')
        # a write op is never given up: every normal return of the scheduler has seen its try_send succeed (Ok), or reports the error
        from .symex import PathLimit as _PL, RESULT as _RES
        try:
            sp = [p for p in ctx.symex(inline_depth=2, loop_visits=2, inline_pred=lambda n_, bb, d: True if (bb.locals[0]['ty']['s'] == 'bool' and not bb.loops() and len(bb.blocks) <= 30) else False).run(b.nid) if not p.diverged]
        except _PL:
            raise CheckFailure('LOOP-retry: path limit in %s' % b.nid)
        for p in sp:
            ret = p.ret
            is_ok = isinstance(ret, tuple) and ret and ret[0] == 'aggr' and ret[1] == _RES and ret[2] == 'Ok'
            if not is_ok:
                continue
            sent_ok = any(isinstance(c, tuple) and c[0] == 'discr' and v == 0 and isinstance(c[1], tuple) and c[1][0] == 'call' and str(c[1][1]).endswith('Sender::try_send')
                          for c, v in p.conds)
            r.instance(function=b.nid, returns='Ok', op_was_queued=sent_ok)
            if not sent_ok:
                r.violate(b.nid, 'write-op-dropped', 'Ok-without-send', 'a path of %s returns Ok although no try_send of the write op succeeded on it (conditions: %s): the op -- and the '
                          'weight change / removal it carries -- is lost' % (b.nid, [fmt(c)[:50] + '==' + str(v) for c, v in p.conds][:6]), where=ctx.where(b.nid),
                          expected='Ok(()) only after try_send(op) == Ok')
    r.require_floor(1, 'write-retry loops')
    return r


def rule_const_logsizes(ctx):
    r = RuleResult('CONST-logsizes', 'compiler-evaluated: 0 < FLUSH_POINT <= LOG_SIZE for the read and the write log; '
                   'MAX_SYNC_REPEATS and batch sizes finite and > 0; channels are bounded by exactly these constants')
    C = ctx.prog.consts
    if not ctx.has_sync:
        return r
    pre = 'common::concurrent::constants::'

    def val(n):
        c = C.get(pre + n)
        if c is None or 'val' not in c:
            # the same constant as an associated const of a marker type: `<ReadLog as LogLimits>::FLUSH_POINT` for READ_LOG_FLUSH_POINT
            parts = n.split('_')
            if parts[0] in ('READ', 'WRITE') and len(parts) > 2:
                tail = '_'.join(parts[2:])          # FLUSH_POINT / SIZE
                cands = [c_ for k_, c_ in C.items() if k_.startswith('<' + pre) and k_.endswith('::' + tail) and parts[0].lower() in k_.lower() and 'val' in c_]
                if len(cands) == 1:
                    return cands[0]['val']
            raise CheckFailure('anchor missing: constant %s' % (pre + n))
        return c['val']
    vals = {n: val(n) for n in ('READ_LOG_FLUSH_POINT', 'READ_LOG_SIZE', 'WRITE_LOG_FLUSH_POINT', 'WRITE_LOG_SIZE',
                                'MAX_SYNC_REPEATS', 'WRITE_RETRY_INTERVAL_MICROS', 'PERIODICAL_SYNC_INTERVAL_MILLIS')}
    checks = [
        ('0 < READ_LOG_FLUSH_POINT <= READ_LOG_SIZE', 0 < vals['READ_LOG_FLUSH_POINT'] <= vals['READ_LOG_SIZE']),
        ('0 < WRITE_LOG_FLUSH_POINT <= WRITE_LOG_SIZE', 0 < vals['WRITE_LOG_FLUSH_POINT'] <= vals['WRITE_LOG_SIZE']),
        ('0 < MAX_SYNC_REPEATS < 2^16', 0 < vals['MAX_SYNC_REPEATS'] < 65536),
        ('WRITE_LOG_SIZE < 2^20', vals['WRITE_LOG_SIZE'] < (1 << 20)),
        ('READ_LOG_SIZE < 2^20', vals['READ_LOG_SIZE'] < (1 << 20)),
        ('WRITE_RETRY_INTERVAL_MICROS < 1s', vals['WRITE_RETRY_INTERVAL_MICROS'] < 1000000),
    ]
    for name, ok in checks:
        r.instance(relation=name, values={k: v for k, v in vals.items() if k in name}, holds=ok)
        if not ok:
            r.violate(pre.rstrip(':'), 'const-relation', name, 'constant relation violated: %s with %s' % (name, vals),
                      expected=name)
    # channel constructors
    prog = ctx.prog
    ctor = 0
    for nid, b in prog.bodies.items():
        for bi, t in b.calls():
            _, ext, _ = prog.call_targets(b, t)
            if ext and ext.startswith('crossbeam_channel::') and ext.split('::')[-1] in ('bounded', 'unbounded', 'after', 'tick', 'never', 'at'):
                ctor += 1
                kind = ext.split('::')[-1]
                arg = t['args'][0] if t['args'] else None
                item = None
                if arg is not None and arg.get('k') == 'const':
                    item = norm(arg.get('item')) if arg.get('item') else ('val:%s' % arg.get('val'))
                r.instance(function=nid, constructor=kind, capacity=item, line=t.get('line'))
                if kind != 'bounded':
                    r.violate(nid, 'channel-ctor', kind, 'channel constructed with %s(): the queue of un-applied operations is '
                              'no longer bounded' % kind, where=ctx.where(nid, t.get('line')), expected='bounded(READ_LOG_SIZE|WRITE_LOG_SIZE)')
                elif item not in (pre + 'READ_LOG_SIZE', pre + 'WRITE_LOG_SIZE'):
                    v = arg.get('val') if arg is not None else None
                    if v not in (vals['READ_LOG_SIZE'], vals['WRITE_LOG_SIZE']):
                        r.violate(nid, 'channel-ctor', 'bounded(%s)' % item, 'channel capacity is not one of the *_LOG_SIZE constants',
                                  where=ctx.where(nid, t.get('line')), expected='bounded(READ_LOG_SIZE|WRITE_LOG_SIZE)')
    if ctor < 2:
        raise CheckFailure('CONST-logsizes: expected 2 channel constructors, found %d' % ctor)
    return r


def rule_housekeeper_lifetime(ctx):
    r = RuleResult('AUTH-housekeeper-lifetime', 'BaseCache.housekeeper is written only by Drop and is never constructed '
                   'as None: every handle that can run an operation has a housekeeper for maintenance')
    ADT = 'sync::base_cache::BaseCache'
    if not ctx.has_sync:
        return r
    ctx.adt_field(ADT, 'housekeeper')
    eff = ctx.eff
    writers = eff.who_has(('write', ADT, 'housekeeper'))
    for w in writers:
        b = ctx.prog.bodies[w]
        ok = (b.impl_trait == 'std::ops::Drop')
        r.instance(function=w, kind='writer', allowed=ok)
        if not ok:
            r.violate(w, 'housekeeper-write', 'BaseCache.housekeeper', 'BaseCache.housekeeper written outside Drop',
                      where=ctx.where(w), expected='only <BaseCache as Drop>::drop')
    for nid, b in ctx.prog.bodies.items():
        for bi, si, st in b.stmts():
            rv = st['rv'] if st['st'] == 'assign' else None
            if rv and rv['rv'] == 'aggr' and rv.get('kind') == 'adt' and norm(rv['adt']) == ADT:
                idx = rv['fields'].index('housekeeper')
                o = rv['ops'][idx]
                leaves = ctx.orig.of_operand(b, o)
                is_none = any(l[0] == 'aggr' and l[1] == 'std::option::Option' and l[2] == 'None' for l in leaves) and \
                    not any(l[0] == 'aggr' and l[2] == 'Some' for l in leaves) and not any(l[0] == 'field' for l in leaves)
                r.instance(function=nid, kind='constructor', housekeeper_from=sorted(str(l) for l in leaves)[:4], none=is_none)
                if is_none:
                    r.violate(nid, 'housekeeper-none', 'BaseCache{housekeeper: None}', 'BaseCache constructed without a housekeeper: '
                              'no operation would ever trigger maintenance', where=ctx.where(nid, st.get('line')))
    r.require_floor(3, 'writers/constructors of BaseCache.housekeeper')
    return r


def rule_flush_trigger(ctx):
    r = RuleResult('CMP-flush-trigger', 'the client-side housekeeping triggers look at their own queue: a write path skips Housekeeper::try_sync only after establishing that the '
                   'WRITE queue is below a flush point <= WRITE_LOG_SIZE, a read path only after establishing the same for the READ queue -- so a full queue always '
                   'makes its producer run the maintenance (the progress argument of the write-retry loop)')
    if not ctx.has_sync:
        return r
    from .roles import write_scheduler, named as _named, get_roles
    from .symex import PathLimit as _PL
    prog = ctx.prog
    R = get_roles(ctx)
    C = prog.consts
    pre = 'common::concurrent::constants::'
    size = {'write': (C.get(pre + 'WRITE_LOG_SIZE') or {}).get('val'), 'read': (C.get(pre + 'READ_LOG_SIZE') or {}).get('val')}
    for kind_ in ('read', 'write'):
        if size[kind_] is None:
            # as an associated const of a marker type (`<ReadLog as LogLimits>::SIZE`)
            cands = [c_['val'] for k_, c_ in C.items() if k_.startswith('<' + pre) and k_.endswith('::SIZE') and kind_ in k_.lower() and 'val' in c_]
            if len(cands) == 1:
                size[kind_] = cands[0]
    if None in size.values():
        raise CheckFailure('CMP-flush-trigger: log size constants not found')
    ws = set(write_scheduler(ctx))
    from_write = set()
    for w in ws:
        from_write |= prog.reachable_from([w])
    from_read = prog.reachable_from([_named(ctx, 'sync.get_lookup')])
    triggers = sorted(n for n, b in prog.bodies.items() if b.kind != 'closure' and n.startswith(('sync::', 'common::concurrent::')) and (prog.callees(n) & R.try_sync)
                      and n not in R.try_sync and not prog.bodies[n].is_pub)
    n_inst = 0
    # a trigger whose decision is handed in by its caller (a predicate parameter) is judged in the context of each caller: the analysis starts
    # at the caller, with the trigger and the caller's predicate closure stepped into
    callers_of = prog.callers()

    def lifted(F, chain, depth=0):
        bF = prog.bodies[F]
        # (a predicate, or the queue length itself)
        takes_pred = any('Fn' in bF.local_ty(i)['s'] or 'closure' in bF.local_ty(i)['s'] or bF.local_ty(i)['s'] == 'usize' for i in range(1, bF.argc + 1))
        if not takes_pred or depth >= 3:
            return [(F, chain)]
        out_ = []
        for c_ in sorted(callers_of.get(F, ())):
            if c_ in prog.bodies and prog.bodies[c_].kind != 'closure' and c_ not in chain:
                out_ += lifted(c_, chain + [F], depth + 1)
        return out_ or [(F, chain)]
    roots = []
    for F0 in triggers:
        for F, chain in lifted(F0, []):
            if (F, tuple(chain)) not in [(a_, tuple(c_)) for a_, c_ in roots]:
                roots.append((F, chain))
    for F, chain in roots:
        kinds = [k for k, S in (('write', from_write), ('read', from_read)) if F in S]
        if not kinds:
            continue
        b = prog.bodies[F]

        def pol(n_, bb, d, _chain=tuple(chain), _F=F):
            if n_ in _chain:
                return True
            if bb.kind == 'closure' and _chain and n_.startswith(_F + '::{closure'):
                return True
            if n_ in R.try_sync or bb.kind == 'closure':
                return False
            return True if (not bb.loops() and len(bb.blocks) <= 30 and not any(e[0] == 'write' for e in ctx.eff.transitive(n_))) else False
        try:
            paths = [p for p in ctx.symex(inline_depth=4 + 2 * len(chain), loop_visits=2, inline_pred=pol).run(F) if not p.diverged]
        except _PL:
            raise CheckFailure('CMP-flush-trigger: path limit in %s' % F)

        def chan_kind(t):
            """which queue a `len()` term measures: by the type of the parameter it is taken from, or the state field it names"""
            ks = set()
            for x in subterms(t):
                if isinstance(x, tuple) and x and x[0] == 'call' and str(x[1]).endswith('::len') and x[2]:
                    for y in subterms(x[2][0]):
                        if isinstance(y, tuple) and y and y[0] == 'param' and 1 <= y[1] <= b.argc:
                            ty = b.local_ty(y[1])['s']
                            if 'WriteOp' in ty:
                                ks.add('write')
                            if 'ReadOp' in ty:
                                ks.add('read')
                        if isinstance(y, tuple) and y and y[0] == 'fld' and y[2] in ('write_op_ch', 'read_op_ch'):
                            ks.add('write' if y[2] == 'write_op_ch' else 'read')
                        elif isinstance(y, tuple) and y and y[0] == 'fld' and isinstance(y[2], str):
                            # any state field declared as a channel end of read / write ops (whatever it is called, wherever it is nested)
                            for a_ in prog.adts.values():
                                for v_ in a_['variants']:
                                    for f_ in v_['fields']:
                                        if f_['name'] == y[2] and 'crossbeam_channel::' in f_['ty']['s']:
                                            if 'WriteOp' in f_['ty']['s']:
                                                ks.add('write')
                                            if 'ReadOp' in f_['ty']['s']:
                                                ks.add('read')
            return ks
        for p in paths:
            if any(e[0] == 'call' and e[1] in R.try_sync for e in p.events):
                continue
            def is_hk(t):
                if 'housekeeper' in fmt(t):
                    return True
                return any(isinstance(y, tuple) and y and y[0] == 'param' and 1 <= y[1] <= b.argc and 'Housekeeper' in b.local_ty(y[1])['s'] for y in subterms(t))
            if any(isinstance(c, tuple) and c[0] == 'discr' and v == 0 and is_hk(c[1]) for c, v in p.conds):
                continue    # no housekeeper configured
            for kind in kinds:
                ok, seen = False, []
                for c, v in p.conds:
                    # `len < point` established: !(point <= len) or (len < point)
                    bound = lent = None
                    if isinstance(c, tuple) and c[0] == 'cmp' and c[1] == 'le' and v is False:
                        bound, lent = c[2], c[3]
                    elif isinstance(c, tuple) and c[0] == 'cmp' and c[1] == 'lt' and v is True:
                        bound, lent = c[3], c[2]
                    if bound is not None and isinstance(bound, tuple) and bound[0] == 'c' and isinstance(bound[1], int) and not isinstance(bound[1], bool):
                        ck = chan_kind(lent)
                        seen.append((bound[1], sorted(ck)))
                        if ck == {kind} and 0 < bound[1] <= size[kind]:
                            ok = True
                n_inst += 1
                r.instance(function=F, path_without_try_sync=True, queue=kind, below_flush_point_established=ok, length_tests=seen)
                if not ok:
                    r.violate(F, 'trigger-wrong-queue', kind, 'a path of %s on the %s path skips Housekeeper::try_sync without having established that the %s queue is below its flush point '
                              '(length tests on this path: %s): with that queue full and the other one short nobody runs the maintenance' % (F, kind, kind, seen), where=ctx.where(F),
                              expected='%s_op_ch.len() >= %s_LOG_FLUSH_POINT || .. => try_sync' % (kind, kind.upper()))
    r.require_floor(2, 'trigger paths without try_sync')
    return r
