"""GUARD-live / CMP rules on the six lookups: every hit path re-checks full liveness of the entry it
returns, with the exact (inclusive deadline, strict watermark) comparisons and operand roles."""
from .core import RuleResult, CheckFailure
from .roles import named, get_roles, CHAN_SEND, ts_name_kind
from .kernel import norm
from .symex import fmt, subterms, PathLimit, OPTION

def lookup_table(ctx):
    # (function, cache kind, result kind)
    return [
        ('unsync::cache::Cache::get', 'unsync', 'option'),
        ('unsync::cache::Cache::contains_key', 'unsync', 'bool'),
        ('<unsync::iter::Iter as std::iter::Iterator>::next', 'unsync', 'option'),
        (named(ctx, 'sync.get_lookup'), 'sync', 'option'),
        (named(ctx, 'sync.contains_lookup'), 'sync', 'bool'),
        ('<sync::iter::Iter as std::iter::Iterator>::next', 'sync', 'option'),
    ]


def public_wrappers(ctx):
    # public wrappers must be thin delegations to the analysed lookups
    return {
        'sync::cache::Cache::get': named(ctx, 'sync.get_lookup'),
        'sync::cache::Cache::contains_key': named(ctx, 'sync.contains_lookup'),
    }

MAP_LOOKUPS = ('std::collections::HashMap::get', 'std::collections::HashMap::get_mut', 'dashmap::DashMap::get',
               'dashmap::DashMap::get_mut')
MAP_ITER_NEXT = ('std::collections::hash_map::Iter::next', 'dashmap::iter::Iter::next', 'std::iter::Iterator::next')


def has_call(t, suffixes):
    for x in subterms(t):
        if isinstance(x, tuple) and x and x[0] == 'call' and str(x[1]).endswith(tuple(suffixes)):
            return True
    return False


def has_field(t, names):
    for x in subterms(t):
        if isinstance(x, tuple) and x and x[0] == 'fld' and x[2] in names:
            return True
    return False


def norm_literal(t, v):
    """Canonical literal: comparisons in `le` form only.  lt(a,b)==v  <=>  le(b,a)==not v."""
    if isinstance(t, tuple) and t and t[0] == 'cmp' and isinstance(v, bool):
        if t[1] == 'lt':
            return (('cmp', 'le', t[3], t[2]), (not v))
        if t[1] == 'ne':
            return (('cmp', 'eq', t[2], t[3]), (not v))
    return (t, v)


def literals_of(conds, extra=()):
    out = []
    work = list(conds) + list(extra)
    while work:
        t, v = work.pop()
        if isinstance(t, tuple) and t:
            if t[0] == 'not' and isinstance(v, bool):
                work.append((t[1], not v)); continue
            if t[0] == 'booland' and v is True:
                work.append((t[1], True)); work.append((t[2], True)); continue
            if t[0] == 'boolor' and v is False:
                work.append((t[1], False)); work.append((t[2], False)); continue
        out.append(norm_literal(t, v))
    return out


TS_KIND = {'last_modified': 'wo', 'last_accessed': 'ao'}


def ts_kind(t):
    """Which timestamp store a term reads: 'wo' (last modified), 'ao' (last accessed), or None/ambiguous."""
    kinds = set()
    for x in subterms(t):
        if isinstance(x, tuple) and x and x[0] == 'call':
            last = str(x[1]).split('::')[-1]
            if last in TS_KIND:
                kinds.add(TS_KIND[last])
        if isinstance(x, tuple) and x and x[0] == 'fld' and ts_name_kind(x[2]):
            kinds.add(ts_name_kind(x[2]))
        # (the single-threaded cache keeps the two timestamps in the entry's deque nodes: "no node" is "no timestamp of that kind")
        if isinstance(x, tuple) and x and x[0] == 'fld' and x[2] in ('access_order_q_node', 'write_order_q_node'):
            kinds.add('ao' if x[2] == 'access_order_q_node' else 'wo')
    return kinds


def ts_entry(t):
    """The entry term the timestamp is read from (argument of last_modified()/last_accessed())."""
    out = []
    for x in subterms(t):
        if isinstance(x, tuple) and x and x[0] == 'call' and str(x[1]).split('::')[-1] in TS_KIND and x[2]:
            out.append(x[2][0])
    if not out:
        # the accessor was stepped into (the entry type is concrete at this call site): the timestamp is read through fields of the entry --
        # the entry is the map lookup result those fields hang off
        for x in subterms(t):
            if isinstance(x, tuple) and x and x[0] == 'fld' and (ts_name_kind(x[2]) or x[2] in ('access_order_q_node', 'write_order_q_node')):
                y = x[1]
                while isinstance(y, tuple) and y and y[0] == 'fld':
                    y = y[1]
                out.append(y)
    return out


def is_clock(t):
    return has_call(t, ('std::time::Instant::now', 'clock::Clock::now'))


_FRESH_CTX = [None, None]     # (ctx, root function) of the lookup being judged


def _field_type(ctx, b, t):
    """Printed type of a pure field chain rooted in a parameter of `b` (references and smart pointers are looked through); None otherwise."""
    if not isinstance(t, tuple) or not t:
        return None
    if t[0] == 'param':
        return b.local_ty(t[1])['s'] if isinstance(t[1], int) and t[1] < len(b.locals) else None
    if t[0] == 'fld':
        bt = _field_type(ctx, b, t[1])
        if bt is None:
            return None
        for an in ctx.prog.adts_in_type(bt):
            for v_ in ctx.prog.adts[an]['variants']:
                for f_ in v_['fields']:
                    if f_['name'] == t[2]:
                        return f_['ty']['s']
        return None
    return None


def _is_shared_read(t):
    """The watermark operand is read from the shared cell in this call (the `valid_after` it goes through is an atomic / locked cell of the cache),
    not a copy kept by value in a handle or iterator.  Undecidable shapes count as shared."""
    ctx, root = _FRESH_CTX
    if ctx is None or root not in ctx.prog.bodies:
        return True
    b = ctx.prog.bodies[root]
    verdicts = []
    for x in subterms(t):
        if isinstance(x, tuple) and x and x[0] == 'fld' and x[2] == 'valid_after':
            ty = _field_type(ctx, b, x)
            verdicts.append(True if ty is None else bool(ctx.eff.is_cell_type(ty)))
    return all(verdicts) if verdicts else True


def classify_literal(t, v):
    """Classify a canonical literal as a liveness fact about some entry.
    Returns dict(kind=..., ...) or None.
      deadline: le(D, now)   with D = checked_add(ts, cfg)   -> 'expired' if v else 'not-expired'
      watermark: le(va, ts)  (from ts < va)                   -> 'valid' if v else 'invalidated'
    """
    if not (isinstance(t, tuple) and t and t[0] == 'cmp' and t[1] == 'le'):
        return None
    a, b = t[2], t[3]
    if has_call(a, ('::checked_add',)):
        ks = ts_kind(a)
        cfg = 'ttl' if has_field(a, ('time_to_live',)) else ('tti' if has_field(a, ('time_to_idle',)) else None)
        return {'what': 'deadline', 'ts': ks, 'cfg': cfg, 'now_is_clock': is_clock(b), 'now': b, 'entries': ts_entry(a),
                'state': 'expired' if v else 'not-expired', 'shape': 'deadline <= now'}
    if has_call(b, ('::checked_add',)):
        # le(now, D): comes from `D < now` / `now >= D`... i.e. lt(D, now)==not v: a strict deadline
        return {'what': 'deadline-strict', 'ts': ts_kind(b), 'cfg': None, 'now_is_clock': is_clock(a), 'now': a, 'entries': ts_entry(b),
                'state': 'not-expired' if v else 'expired', 'shape': 'deadline < now (exclusive: wrong boundary)'}
    if ts_kind(b) and (has_field(a, ('valid_after',))):
        return {'what': 'watermark', 'ts': ts_kind(b), 'entries': ts_entry(b), 'state': 'valid' if v else 'invalidated',
                'shape': 'ts < valid_after', 'va_fresh': _is_shared_read(a), 'va': a}
    if ts_kind(a) and (has_field(b, ('valid_after',))):
        # le(ts, va): from `ts <= va` : non-strict watermark
        return {'what': 'watermark-nonstrict', 'ts': ts_kind(a), 'entries': ts_entry(a), 'state': 'invalidated' if v else 'valid',
                'shape': 'ts <= valid_after (non-strict: wrong boundary)'}
    return None


def tag_none_facts(lits):
    """Terms known to be None on this path."""
    out = []
    for t, v in lits:
        if isinstance(t, tuple) and t and t[0] == 'discr' and v == 0:
            out.append(t[1])
    return out


def entry_of_result(ret):
    """Entry term the returned value is taken from (base of `.value`, or the map iterator item wrapped
    into the returned reference type)."""
    for x in subterms(ret):
        if isinstance(x, tuple) and x and x[0] == 'fld' and x[2] == 'value':
            return x[1]
    for x in subterms(ret):
        if isinstance(x, tuple) and x and x[0] == 'payload' and has_call(x, ('::next',) + MAP_LOOKUPS):
            return x
    return None


def strip_entry(t):
    """Normalise an entry term for identity comparison (drop occurrence indices of the lookup call)."""
    return t


class LookupAnalysis:
    def __init__(self, ctx, nid, kind, rkind):
        self.ctx, self.nid, self.kind, self.rkind = ctx, nid, kind, rkind
        ctx.body(nid)

        def pol(n, b, d):
            # inline cache-level helpers only; eviction / recording / maintenance stay opaque events
            last = n.split('::')[-1]
            if n in (named(ctx, 'unsync.evict_expired'), named(ctx, 'unsync.evict_lru')):
                return False
            # recording a hit / read is an event of the lookup, not part of its liveness logic: functions that move deque nodes or
            # send to a channel stay opaque
            R_ = get_roles(ctx)
            if (ctx.prog.reachable_from([n]) & R_.move) or any(x in CHAN_SEND for y in ctx.prog.reachable_from([n]) for x in R_.ext_calls.get(y, ())):
                return False
            return None
        sx = ctx.symex(inline_depth=8, inline_pred=pol, loop_visits=1 if 'Iterator' in nid else 2)
        try:
            self.paths = [p for p in sx.run(nid) if not p.diverged]
        except PathLimit:
            raise CheckFailure('GUARD-live: path limit exceeded in %s' % nid)
        self.rows = []
        for p in self.paths:
            self.rows.append(self.classify(p))

    def classify(self, p):
        ret = p.ret
        extra = []
        hit = None
        if self.rkind == 'bool':
            if ret[0] == 'c':
                hit = bool(ret[1])
            else:
                hit = 'formula'
        else:
            if ret[0] == 'aggr' and ret[1] == OPTION:
                hit = (ret[2] == 'Some')
            else:
                hit = 'formula'
        lits_hit = literals_of(p.conds, [(ret, True)] if hit == 'formula' and self.rkind == 'bool' else [])
        lits_miss = literals_of(p.conds, [(ret, False)] if hit == 'formula' and self.rkind == 'bool' else [])
        return {'path': p, 'hit': hit, 'lits_hit': lits_hit, 'lits_miss': lits_miss}


def _map_entry_terms(p):
    """Terms of map lookups / iterator items evaluated on this path."""
    out = []
    for e in p.events:
        if e[0] == 'call' and (e[1] in MAP_LOOKUPS or e[1].endswith('::next')):
            out.append(e[6] if len(e) > 6 else ('call', e[1], e[2]))
    return out


def _lookup_analysis(ctx, nid, kind, rkind):
    key = ('lookup', nid)
    if key not in ctx.cache:
        ctx.cache[key] = LookupAnalysis(ctx, nid, kind, rkind)
    return ctx.cache[key]


def make_guard_rule(name, atoms, statement):
    """atoms: subset of {'ttl','tti','va_wo','va_ao'} this instance of the rule demands on every hit path."""

    def rule(ctx):
        r = RuleResult(name, statement)
        has_sync = any(n.startswith('sync::') for n in ctx.prog.bodies)
        nlook = 0
        for nid, kind, rkind in lookup_table(ctx):
            if kind == 'sync' and not has_sync:
                continue
            la = _lookup_analysis(ctx, nid, kind, rkind)
            _FRESH_CTX[0], _FRESH_CTX[1] = ctx, nid
            nlook += 1
            hits = 0
            for row in la.rows:
                if row['hit'] is False:
                    continue
                hits += 1
                p = row['path']
                lits = row['lits_hit']
                facts = [(classify_literal(t, v), t, v) for t, v in lits]
                nones = tag_none_facts(lits)
                ret_entry = entry_of_result(p.ret) if rkind == 'option' else None
                lookups = _map_entry_terms(p)
                need = [a for a in atoms if not (kind == 'unsync' and a.startswith('va'))]
                verdicts = {}
                for a in need:
                    want_ts = 'wo' if a in ('ttl', 'va_wo') else 'ao'
                    ok, why = False, 'no %s check on this hit path' % a
                    # (1) explicit literal
                    for f, t, v in facts:
                        if not f:
                            continue
                        if a in ('ttl', 'tti') and f['what'].startswith('deadline') and want_ts in f['ts']:
                            if f['what'] != 'deadline':
                                why = 'comparison `%s`' % f['shape']; continue
                            if f['state'] != 'not-expired':
                                continue
                            if f['cfg'] != a:
                                why = 'deadline of %s built with the %s duration' % (a, f['cfg']); continue
                            if len(f['ts']) != 1:
                                why = 'deadline mixes timestamp stores %s' % sorted(f['ts']); continue
                            if not f['now_is_clock']:
                                why = '`now` (%s) is not a clock reading taken in this call' % fmt(f['now']); continue
                            if not _same_entry(f['entries'], ret_entry, lookups):
                                why = 'predicate evaluated on a different entry than the one returned'; continue
                            ok, why = True, '%s == %s' % (fmt(t), v)
                            break
                        if a in ('va_wo', 'va_ao') and f['what'].startswith('watermark') and want_ts in f['ts']:
                            if f['what'] != 'watermark':
                                why = 'comparison `%s`' % f['shape']; continue
                            if f['state'] != 'valid':
                                continue
                            if not f.get('va_fresh'):
                                why = 'the watermark (%s) is a copy taken earlier, not a read of the shared valid_after in this call: an invalidate_all issued in between is missed' % fmt(f['va']); continue
                            if not _same_entry(f['entries'], ret_entry, lookups):
                                why = 'watermark checked on a different entry than the one returned'; continue
                            ok, why = True, '%s == %s' % (fmt(t), v)
                            break
                    # (2) vacuous: configuration / watermark / timestamp known to be None on this path
                    if not ok:
                        for n in nones:
                            if a == 'ttl' and has_field(n, ('time_to_live',)) and not has_call(n, ('checked_add',)):
                                ok, why = True, 'time_to_live is None on this path'
                            if a == 'tti' and has_field(n, ('time_to_idle',)) and not has_call(n, ('checked_add',)):
                                ok, why = True, 'time_to_idle is None on this path'
                            if a.startswith('va') and has_field(n, ('valid_after',)):
                                if _is_shared_read(n):
                                    ok, why = True, 'valid_after is None on this path'
                                else:
                                    why = 'the watermark (%s) is a copy taken earlier, not a read of the shared valid_after in this call: an invalidate_all issued in between is missed' % fmt(n)
                            if kind == 'unsync' and a in ('ttl', 'tti') and _is_no_expiry_fact(n):
                                ok, why = True, 'no expiry configured (timestamp == None <=> ttl and tti are None)'
                            ks = ts_kind(n)
                            if ks == {want_ts} and _same_entry(ts_entry(n), ret_entry, lookups) and not has_call(n, ('checked_add',)):
                                ok, why = True, 'entry has no %s timestamp on this path' % want_ts
                        # has_expiry()==false style facts
                        for t, v in lits:
                            if isinstance(t, tuple) and t and t[0] == 'cmp' and t[1] == 'eq' and v is False:
                                # is_some(x) == False  encoded as eq(1, discr(x)) == False
                                d = [y for y in (t[2], t[3]) if isinstance(y, tuple) and y[0] == 'discr']
                                for y in d:
                                    n = y[1]
                                    if a == 'ttl' and has_field(n, ('time_to_live',)):
                                        ok, why = True, 'time_to_live.is_some() == false on this path'
                                    if a == 'tti' and has_field(n, ('time_to_idle',)):
                                        ok, why = True, 'time_to_idle.is_some() == false on this path'
                    verdicts[a] = (ok, why)
                # the watermark test on the last-accessed time is implied by the one on the last-modified time: both stores start with the same
                # reading at insert / update and reads only ever advance last_accessed (STALE-ts), so last_accessed >= last_modified >= valid_after
                if 'va_ao' in verdicts and not verdicts['va_ao'][0] and verdicts.get('va_wo', (False,))[0]:
                    verdicts['va_ao'] = (True, 'implied by the last-modified watermark test (last_accessed >= last_modified: STALE-ts, MUST-update-resets)')
                r.instance(lookup=nid, hit=str(row['hit']), returns=fmt(p.ret)[:70], checks={a: w for a, (o, w) in verdicts.items()})
                for a, (ok, why) in verdicts.items():
                    if not ok:
                        r.violate(nid, 'hit-without-' + a, why,
                                  'a path of %s returns a hit without establishing that the returned entry is live w.r.t. %s: %s'
                                  % (nid, a, why), where=ctx.where(nid),
                                  path=['%s == %s' % (fmt(t), v) for t, v in lits][:14],
                                  expected={'ttl': 'last_modified + time_to_live <= now  is false (inclusive deadline, clock read in this call, on the returned entry)',
                                            'tti': 'last_accessed + time_to_idle <= now  is false', 'va_wo': 'last_modified < valid_after is false (strict)',
                                            'va_ao': 'last_accessed < valid_after is false (strict)'}[a])
            if hits == 0:
                raise CheckFailure('%s: no hit path found in %s (lookup role lost?)' % (name, nid))
        # public wrappers delegate
        for w, target in public_wrappers(ctx).items():
            if w in ctx.prog.bodies:
                b = ctx.prog.bodies[w]
                calls = [ctx.prog.call_targets(b, t)[0] for _, t in b.calls()]
                flat = {x for c in calls for x in c}
                ok = target in flat and len(b.blocks) <= 6
                r.instance(wrapper=w, delegates_to=target, ok=ok)
                if not ok:
                    r.violate(w, 'wrapper-not-delegating', target, 'public %s no longer simply delegates to the analysed lookup %s' % (w, target),
                              where=ctx.where(w))
        # every other way to draw items from a cache iterator goes through the analysed `next`: an override of another std::iter method
        # (nth, fold, last, next_back, ...) that touches the underlying map iterator hands out, or silently consumes, unfiltered entries
        for nid, kind, rkind in lookup_table(ctx):
            b0 = ctx.prog.bodies.get(nid)
            if b0 is None or not nid.endswith(' as std::iter::Iterator>::next') or not b0.impl_self:
                continue
            adt = norm(str(b0.impl_self.get('adt') or ''))
            inner = set()
            for v_ in (ctx.prog.adts.get(adt) or {}).get('variants', ()):
                for f_ in v_['fields']:
                    a_ = norm(str(f_['ty'].get('adt') or ''))
                    if 'iter' in a_.lower():
                        inner.add(a_)
            sibs = [(n2, b2) for n2, b2 in ctx.prog.bodies.items() if b2.impl_self and norm(str(b2.impl_self.get('adt') or '')) == adt
                    and (b2.impl_trait or '').startswith('std::iter::') and n2 != nid and b2.trait_item and b2.trait_item.split('::')[-1] != 'size_hint']
            r.instance(iterator=adt, next=nid, underlying=sorted(inner), other_iteration_methods=[n2 for n2, _ in sibs])
            for n2, b2 in sibs:
                group = [b2] + [bc for bc in ctx.prog.bodies.values() if bc.kind == 'closure' and bc.root == n2]
                for bx in group:
                    for _, t in bx.calls():
                        tys = ' '.join(str(a_.get('pty') or '') for a_ in t.get('args', ()))
                        hit = [i_ for i_ in inner if i_ in norm(tys)]
                        if hit:
                            r.violate(n2, 'iterator-override-unfiltered', t.get('callee') or '?',
                                      '%s draws from the underlying %s directly (%s): entries it passes over or returns are not checked by the liveness filter of next'
                                      % (n2, hit[0], norm(str(t.get('callee') or '?'))), where=ctx.where(n2, t.get('line')))
        r.require_floor(6 + nlook if has_sync else 3, 'hit paths of lookups')
        return r
    rule.__name__ = 'rule_' + name.lower().replace('-', '_').replace('(', '_').replace(')', '')
    return rule


def _is_no_expiry_fact(n):
    """unsync: `timestamp` (Option<Instant> returned by the evict-expired role) is None."""
    return has_field(n, ('time_to_live', 'time_to_idle')) is False and has_call(n, ('evict_expired_if_needed',))


def _same_entry(entries, ret_entry, lookups):
    """All timestamp reads are on the returned entry (or, for bool lookups, on a map lookup result of this path)."""
    if not entries:
        return False
    for e in entries:
        ok = False
        if ret_entry is not None:
            ok = _derives(e, ret_entry) or _derives(ret_entry, e)
        else:
            ok = any(_derives(e, l) for l in lookups)
        if not ok:
            return False
    return True


def _derives(a, b):
    """a is b or a (payload/field/deref) view of b."""
    return any(x == b for x in subterms(a)) or _core(a) == _core(b)


def _core(t):
    while isinstance(t, tuple) and t and t[0] in ('payload', 'fld') and t[0] == 'payload':
        t = t[1]
    return t


def rule_miss_reasons(ctx):
    """C03 at lookup level: a miss must have a reason -- key absent, or an expiry/watermark atom true."""
    r = RuleResult('MISS-has-cause', 'every non-hit path of a lookup is explained by: the map has no entry for the key, the iterator '
                   'is exhausted, or an expiry / watermark comparison on that entry is true -- nothing else hides a live entry')
    has_sync = any(n.startswith('sync::') for n in ctx.prog.bodies)
    for nid, kind, rkind in lookup_table(ctx):
        if kind == 'sync' and not has_sync:
            continue
        la = _lookup_analysis(ctx, nid, kind, rkind)
        for row in la.rows:
            if row['hit'] is True:
                continue
            p = row['path']
            lits = row['lits_miss']
            cause = None
            is_iter = 'Iterator' in nid
            for t, v in lits:
                f = classify_literal(t, v)
                # an iterator skips an expired entry and goes on: only exhaustion ends it (an expired entry is no reason to report "no more entries")
                if f and f['what'] in ('deadline', 'watermark') and f['state'] in ('expired', 'invalidated') and not is_iter:
                    cause = f['state'] + ' (' + f['shape'] + ')'
            if cause is None:
                for t, v in lits:
                    if isinstance(t, tuple) and t and t[0] == 'discr' and v == 0 and (
                            has_call(t[1], MAP_LOOKUPS) or has_call(t[1], ('::next',))):
                        cause = 'no entry / iterator exhausted'
                if is_iter and cause and any(isinstance(t, tuple) and t and t[0] == 'discr' and v == 1 and has_call(t[1], ('::next',)) and not has_call(t[1], ('checked_add',))
                                             and isinstance(t[1], tuple) and t[1][0] == 'call' for t, v in lits) and not any(
                        isinstance(t, tuple) and t and t[0] == 'discr' and v == 0 and isinstance(t[1], tuple) and t[1][0] == 'call' and str(t[1][1]).endswith('::next') for t, v in lits):
                    cause = None
            r.instance(lookup=nid, returns=fmt(p.ret)[:40], cause=cause)
            if cause is None:
                r.violate(nid, 'miss-without-cause', fmt(p.ret)[:40],
                          ('a path of %s ends the iteration (returns None) although the underlying map iterator is not exhausted: an expired entry must be skipped, not end '
                           'the iteration -- live entries after it are never reported' % nid) if 'Iterator' in nid else
                          ('a path of %s reports a miss although the entry exists and no expiry/watermark comparison is true' % nid),
                          where=ctx.where(nid), path=['%s == %s' % (fmt(t), v) for t, v in lits][:14],
                          expected='miss only if key absent or entry expired / invalidated')
    r.require_floor(8 if has_sync else 4, 'miss paths')
    return r


ALL_ATOMS = ('ttl', 'tti', 'va_wo', 'va_ao')
rule_guard_live_all = make_guard_rule('GUARD-live', ALL_ATOMS, 'on every hit path of the 6 lookups (get / contains_key / Iter::next of both '
                                      'caches) the returned entry is established as not expired by ttl (last_modified + ttl <= now is false), not '
                                      'expired by tti, and (sync) not below the invalidate_all watermark (ts < valid_after is false, both stores); '
                                      'comparisons have exactly these operators and operand roles; `now` is a clock read of this call')
rule_guard_live_ttl = make_guard_rule('GUARD-live(ttl)', ('ttl',), 'every hit path of the 6 lookups establishes  last_modified(entry) + '
                                      'time_to_live <= now  == false  on the entry it returns (inclusive boundary, clock read in this call)')
rule_guard_live_tti = make_guard_rule('GUARD-live(tti)', ('tti',), 'every hit path of the 6 lookups establishes  last_accessed(entry) + '
                                      'time_to_idle <= now  == false  on the entry it returns (inclusive boundary, clock read in this call)')
rule_guard_live_va = make_guard_rule('GUARD-live(valid_after)', ('va_wo', 'va_ao'), 'every hit path of the 3 sync lookups establishes  ts < valid_after == false '
                                     '(strict) for last_modified and last_accessed of the entry it returns')


def rule_lookup_surface(ctx):
    r = RuleResult('AUTH-lookup-surface', 'the analysed lookups are the only public way to observe what the map holds: no other public method of the caches reaches a '
                   'map-lookup primitive (HashMap::get / get_mut, DashMap::get) except through an analysed lookup, the insert handlers or the maintenance '
                   'run -- a second read path would need its own liveness filter, recency refresh and read recording')
    prog = ctx.prog
    R = get_roles(ctx)
    looks = {n for n, _, _ in lookup_table(ctx)} | set(public_wrappers(ctx)) | {'unsync::cache::Cache::iter', 'sync::cache::Cache::iter'}

    def _reads_map(m):
        m = str(m)
        if m in MAP_LOOKUPS[:4]:
            return True
        last = m.split('::')[-1].rstrip('>')
        return (('HashMap' in m or 'DashMap' in m or 'hash_map::' in m or 'dashmap::iter' in m) and
                last in ('iter', 'iter_mut', 'values', 'values_mut', 'keys', 'into_iter', 'next', 'get_key_value', 'get_mut', 'get'))
    _rootof = lambda n: prog.bodies[n].root if prog.bodies[n].kind == 'closure' and prog.bodies[n].root else n
    direct = {_rootof(n) for n in prog.bodies if any(_reads_map(m) for m in R.ext_calls.get(n, ()))}
    # (a scan that selects what it removes is an invalidation, not a lookup)
    from .roles import HASHMAP_REMOVE, DASHMAP_REMOVE
    direct -= {_rootof(n) for n in prog.bodies if R.ext_calls.get(n, set()) & (HASHMAP_REMOVE | DASHMAP_REMOVE)}
    barrier = set(looks) | set(R.maintenance) | set(R.try_sync)
    # whatever builds one of the analysed iterators (`BaseCache::iter`, `Iter::new`) hands the map to the analysed `next`
    iter_adts = {norm(str((prog.bodies[n].impl_self or {}).get('adt') or '')) for n in looks if n.endswith(' as std::iter::Iterator>::next') and n in prog.bodies}
    barrier |= {n for n, b_ in prog.bodies.items() if b_.kind != 'closure' and norm(str(b_.locals[0]['ty'].get('adt') or '')) in iter_adts}
    for k_ in ('unsync.insert_handler', 'unsync.update_handler', 'sync.do_insert', 'sync.upsert'):
        try:
            barrier.add(named(ctx, k_))
        except Exception:
            pass
    n = 0
    for p in sorted(prog.public_api()):
        b = prog.bodies.get(p)
        if b is None or b.kind == 'closure' or p in looks or not p.startswith(('sync::', 'unsync::', '<sync::', '<unsync::')):
            continue
        if b.locals[0]['ty']['s'] == '()':
            continue        # a pure writer (insert, invalidate*): whatever it reads, it hands nothing out
        n += 1
        seen, work, hit = {p}, [p], None
        while work and hit is None:
            x = work.pop()
            if x in direct and x not in barrier:
                hit = x
                break
            for c in prog.callees(x):
                c0 = prog.bodies[c].root if (c in prog.bodies and prog.bodies[c].kind == 'closure' and prog.bodies[c].root) else c
                for y in (c, c0):
                    if y in prog.bodies and y not in seen and y not in barrier:
                        seen.add(y); work.append(y)
        r.instance(public_method=p, reads_map_outside_lookups=hit)
        if hit:
            r.violate(p, 'unanalysed-lookup', hit.split('::')[-1], 'public %s reads the map (%s) without going through one of the analysed lookups: what it observes or hands out is neither '
                      'filtered for liveness, nor counted as a use, nor recorded' % (p, hit), where=ctx.where(hit), expected='delegate to get / contains_key / iter')
    r.require_floor(6 if ctx.has_sync else 3, 'public methods of the caches')
    return r
