"""Path-sensitive abstract interpretation of MIR bodies over a domain of hash-consed symbolic
terms (no solver; booleans are decided by enumeration of atom valuations in formula.py).

For a function it enumerates the acyclic paths (each loop back edge taken at most once) from
entry to every normal return and yields, per path:
    conds   : list of (term, value) branch decisions taken
    ret     : symbolic term of the return value
    events  : ordered list of calls that were not inlined and of writes through places
Small in-crate callees and closures are inlined (bounded depth); a table of std adaptors
(Option::map / unwrap_or / and_then / is_some / ...) is modelled directly.

Terms (plain tuples, structurally comparable):
  ('c', v)  ('param', i)  ('fld', base, name)  ('payload', base, variant, idx)
  ('call', callee, args)  ('aggr', adt, variant, fields)  ('tuple', items)
  ('cmp', op, a, b) op in {lt, le, eq, ne}   ('not', x)  ('bin', op, a, b)  ('un', op, a)
  ('discr', x)  ('unk', tag)  ('closure', nid, caps)  ('ovf', x)
"""
from .kernel import norm, op_place

MAX_PATHS = int(__import__('os').environ.get('VERIF_MAX_PATHS', '250000'))


INT_IMPL_PREFIXES = tuple('<%s as ' % t_ for t_ in ('u8', 'u16', 'u32', 'u64', 'u128', 'usize', 'i8', 'i16', 'i32', 'i64', 'i128', 'isize', 'std::time::Instant', 'std::time::Duration'))
COLL_CTORS = ('default', 'new', 'new_const', 'with_capacity')
COLL_CTOR_PREFIXES = ('<smallvec::SmallVec as std::default::Default>::', 'smallvec::SmallVec::', 'std::vec::Vec::', '<std::vec::Vec as std::default::Default>::')
ITER_ADAPTORS = ('iter_filter', 'iter_map', 'iter_filter_map', 'iter_take_while', 'iter_skip_while', 'iter_map_while', 'iter_flatten')


class PathLimit(Exception):
    pass


OPTION = 'std::option::Option'
RESULT = 'std::result::Result'
CONTROLFLOW = 'std::ops::ControlFlow'
MAPENTRY = 'dashmap::Entry'
STD_VARIANTS = {OPTION: ['None', 'Some'], RESULT: ['Ok', 'Err'], CONTROLFLOW: ['Continue', 'Break'], MAPENTRY: ['Occupied', 'Vacant']}
OCC_GET_MUT = 'dashmap::OccupiedEntry::get_mut'
VAC_INSERT = 'dashmap::VacantEntry::insert'

# external calls that return (a view of) their first argument
IDENTITY_CALLS = {
    'deref', 'deref_mut', 'as_ref', 'as_mut', 'borrow', 'borrow_mut', 'clone', 'cloned', 'copied', 'by_ref',
    'as_deref', 'as_deref_mut', 'into', 'from', 'to_owned', 'into_iter', 'as_ptr', 'as_mut_ptr', 'cast',
    'into_boxed_slice', 'as_non_null_ptr',
}
IDENTITY_PATHS_SUFFIX = (
    'std::ops::Deref::deref', 'std::ops::DerefMut::deref_mut', 'std::convert::AsRef::as_ref',
    'std::convert::AsMut::as_mut', 'std::borrow::Borrow::borrow', 'std::clone::Clone::clone',
    'std::option::Option::as_ref', 'std::option::Option::as_mut', 'std::option::Option::cloned',
    'std::option::Option::copied', 'std::convert::Into::into', 'std::convert::From::from',
    'std::ptr::NonNull::as_ref', 'std::ptr::NonNull::as_mut', 'std::ptr::NonNull::as_ptr',
    'std::rc::Rc::clone', 'std::sync::Arc::clone', 'triomphe::Arc::clone', 'std::ptr::NonNull::from',
    'std::iter::IntoIterator::into_iter', 'std::iter::Iterator::by_ref', 'std::ptr::NonNull::new_unchecked',
    'std::borrow::BorrowMut::borrow_mut', 'std::boxed::Box::new', 'triomphe::Arc::new', 'std::sync::Arc::new',
    'std::rc::Rc::new', 'std::sync::Arc::as_ref', 'std::rc::Rc::as_ref',
    'dashmap::mapref::one::Ref::value', 'dashmap::mapref::multiple::RefMulti::value',
)
# lock acquisition: result is the protected place itself (poisoning ignored: expect/unwrap = payload)
LOCK_CALLS = ('std::sync::Mutex::lock', 'std::sync::RwLock::read', 'std::sync::RwLock::write')
UNWRAP_CALLS = ('std::option::Option::unwrap', 'std::option::Option::expect', 'std::result::Result::unwrap',
                'std::result::Result::expect', 'std::option::Option::unwrap_unchecked')
PANIC_PREFIXES = ('core::panicking::', 'std::rt::begin_panic', 'std::rt::panic_fmt', 'core::panicking::panic',
                  'std::panicking::', 'core::option::unwrap_failed', 'core::option::expect_failed',
                  'core::result::unwrap_failed')
CMP_TRAIT = {'std::cmp::PartialOrd::lt': 'lt', 'std::cmp::PartialOrd::le': 'le', 'std::cmp::PartialOrd::gt': 'gt',
             'std::cmp::PartialOrd::ge': 'ge', 'std::cmp::PartialEq::eq': 'eq', 'std::cmp::PartialEq::ne': 'ne'}


IDENTITY_TRAITS = ('std::ops::Deref', 'std::ops::DerefMut', 'std::convert::AsRef', 'std::convert::AsMut', 'std::borrow::Borrow',
                   'std::borrow::BorrowMut', 'std::clone::Clone', 'std::convert::Into', 'std::convert::From',
                   'std::iter::IntoIterator', 'std::borrow::ToOwned')


def is_identity_call(ext):
    if ext in IDENTITY_PATHS_SUFFIX:
        return True
    if ext.startswith('<') and ' as ' in ext:
        tr = ext[ext.rfind(' as ') + 4:]
        tr, _, meth = tr.partition('>::')
        if tr in IDENTITY_TRAITS and meth in IDENTITY_CALLS:
            return True
    return False


def const_duration(c):
    """(secs, nanos) of a compiler-evaluated constant of type std::time::Duration (bytes + field layout from the driver), else None."""
    if not c or (c.get('ty') or {}).get('s') != 'std::time::Duration' or not c.get('bytes_le') or not c.get('fields'):
        return None
    raw = bytes.fromhex(c['bytes_le'])
    off = {f['name']: f['offset'] for f in c['fields']}
    if 'secs' not in off or 'nanos' not in off:
        return None
    secs = int.from_bytes(raw[off['secs']:off['secs'] + 8], 'little')
    nanos = int.from_bytes(raw[off['nanos']:off['nanos'] + 4], 'little')
    return secs, nanos


def const_eval(t):
    """Numeric value of a term built from constants and + - only (accumulators keep their structure as terms)."""
    if not isinstance(t, tuple) or not t:
        return None
    if t[0] == 'c' and isinstance(t[1], (int, bool)):
        return int(t[1]) if not isinstance(t[1], bool) else t[1]
    if t[0] == 'cast':
        return const_eval(t[1])
    if t[0] == 'bin' and t[1] in ('Add', 'Sub', 'saturating_add', 'saturating_sub', 'Mul'):
        a, b = const_eval(t[2]), const_eval(t[3])
        if a is None or b is None or isinstance(a, bool) or isinstance(b, bool):
            return None
        if t[1] in ('Add', 'saturating_add'):
            return a + b
        if t[1] == 'Mul':
            return a * b
        return max(a - b, 0) if t[1] == 'saturating_sub' else a - b
    return None


def mk_cmp(op, a, b):
    """Canonical comparison term: only lt / le / eq / ne; gt(a,b)=lt(b,a), ge(a,b)=le(b,a)."""
    op = op.lower()
    if op == 'gt':
        return ('cmp', 'lt', b, a)
    if op == 'ge':
        return ('cmp', 'le', b, a)
    if op in ('eq', 'ne'):
        if repr(b) < repr(a):
            a, b = b, a
    return ('cmp', op, a, b)


def mk_not(x):
    if x[0] == 'c':
        return ('c', not x[1])
    if x[0] == 'not':
        return x[1]
    if x[0] == 'cmp':
        op, a, b = x[1], x[2], x[3]
        if op == 'lt':
            return ('cmp', 'le', b, a)
        if op == 'le':
            return ('cmp', 'lt', b, a)
        if op == 'eq':
            return ('cmp', 'ne', a, b)
        if op == 'ne':
            return ('cmp', 'eq', a, b)
    return ('not', x)


def some(x):
    return ('aggr', OPTION, 'Some', (x,))


NONE = ('aggr', OPTION, 'None', ())


class Path:
    __slots__ = ('conds', 'ret', 'events', 'diverged', 'known', 'env')

    def __init__(self, conds, ret, events, diverged, known, env=None):
        self.conds = conds
        self.ret = ret
        self.events = events
        self.diverged = diverged
        self.known = known
        self.env = env or {}


class State:
    __slots__ = ('env', 'heap', 'conds', 'events', 'known', 'visits', 'occ', 'frames', 'hh')

    def __init__(self):
        self.env = {}
        self.heap = {}
        self.conds = []
        self.events = []
        self.known = {}
        self.visits = {}
        self.occ = {}
        self.frames = {}
        self.hh = False

    def fork(self):
        s = State()
        s.env = dict(self.env)
        s.heap = dict(self.heap)
        s.conds = list(self.conds)
        s.events = list(self.events)
        s.known = dict(self.known)
        s.visits = dict(self.visits)
        s.occ = dict(self.occ)
        s.hh = self.hh
        s.frames = {k: (dict(v) if isinstance(v, dict) else v) for k, v in self.frames.items()}
        # env must stay the same object as its frame entry
        for k, v in self.frames.items():
            if v is self.env:
                s.env = s.frames[k]
        return s


class SymEx:
    def __init__(self, prog, inline_depth=4, inline_max_blocks=60, inline_pred=None, loop_visits=2,
                 max_paths=MAX_PATHS, eff=None, havoc_loops=False, inner_diverge=False, trip_events=False, emit_cut=False, precise_heap=False):
        self.prog = prog
        # precise_heap: a read of a sub-place of a heap location that was overwritten on this path (`self.head = x; match self.head { Some(h) => ..`)
        # projects the value written, so that every term denotes a PRE-state value (needed for rules that compare the final heap with the initial one)
        self.precise_heap = True if precise_heap else None
        # trip_events: record an event ('trip', body, header block) each time a loop header of the analysed body is entered again;
        # emit_cut: also output the path prefixes abandoned at the loop-revisit bound (Path.diverged == 'cut') -- for rules about what happens
        # BETWEEN consecutive iterations of a loop that may go round any number of times
        self.trip_events = trip_events
        self.emit_cut = emit_cut
        # havoc_loops: on entering a loop, everything the loop may modify (locals assigned / mutably borrowed in it, the whole heap)
        # becomes unknown, so that terms never denote a first-iteration value of loop-carried state (needed for value-range arguments)
        self.havoc_loops = havoc_loops
        # inner_diverge: also report paths that end in a panic inside an inlined callee (by default only panics of the analysed body itself)
        self.inner_diverge = inner_diverge
        self._loop_hdr = {}
        self.eff = eff
        self._pure = {}
        self._closure_fields = {}
        for b in prog.bodies.values():
            for bi, si, st_ in b.stmts():
                if st_['st'] == 'assign' and st_['rv']['rv'] == 'aggr' and st_['rv'].get('kind') == 'closure':
                    self._closure_fields[norm(st_['rv']['closure'])] = st_['rv'].get('fields', [])
        self.inline_depth = inline_depth
        self.inline_max_blocks = inline_max_blocks
        self.inline_pred = inline_pred
        self.loop_visits = loop_visits
        self.max_paths = max_paths
        self.npaths = 0
        self._unk = 0

    # -------------------------------------------------------------------------------------------
    def run(self, nid, args=None):
        """Enumerate paths of body `nid`. args: list of terms for parameters (default ('param', i))."""
        b = self.prog.bodies[nid]
        self.npaths = 0
        st = State()
        st.frames[b.nid] = st.env
        for i in range(1, b.argc + 1):
            st.env[i] = args[i - 1] if args else ('param', i)
        out = []
        self._exec(b, 0, st, 0, out)
        return out

    def fresh(self, tag):
        self._unk += 1
        return ('unk', '%s#%d' % (tag, self._unk))

    # -------------------------------------------------------------------------------------------
    # evaluation of places / operands / rvalues
    def read_place(self, b, st, pl):
        """Value currently stored in the place."""
        return self.load(st, self.place_key(b, st, pl), b)

    def load(self, st, key, b=None):
        """Current content of the location named by `key` (pointer values and the locations they
        designate are conflated: a term that is not a known location denotes itself)."""
        if key in st.heap:
            return st.heap[key]
        k = key[0] if isinstance(key, tuple) and key else None
        if k == 'local':
            fr = st.env if (b is not None and key[1] == b.nid) else st.frames.get(key[1])
            if fr is None:
                fr = st.env
            v = fr.get(key[2])
            if v is not None and st.heap and isinstance(v, tuple) and v and v[0] in ('param', 'fld', 'payload'):
                # a by-value object whose fields were assigned in place (`mut self` setters): the assignments travel with the value
                ov = []
                # (assigned through the local itself, or -- the object is owned by value here -- through a `&mut` to it that a helper / closure
                # received: `fn set(mut self, step: impl FnOnce(&mut Self)) -> Self { step(&mut self); self }`)
                lb_ = self.prog.bodies.get(key[1])
                by_value = v[0] == 'param' and lb_ is not None and lb_.kind != 'closure' and key[2] < len(lb_.locals) and \
                    not lb_.local_ty(key[2])['s'].startswith(('&', '*')) and bool(lb_.local_ty(key[2]).get('adt'))
                for hk, hv in st.heap.items():
                    path, x = [], hk
                    while isinstance(x, tuple) and x and x[0] == 'fld' and x != key and not (by_value and x == v):
                        path.append(x[2]); x = x[1]
                    if (x == key or (by_value and x == v)) and path:
                        ov.append((tuple(reversed(path)), hv))
                if ov:
                    return ('overlay', v, tuple(sorted(ov, key=str)))
            return v if v is not None else ('unk', 'uninit:%s:_%d' % (key[1], key[2]))
        if k in ('fld', 'payload', 'index'):
            base = key[1]
            bv = self.load(st, base, b) if self._rooted_in_local(base) else (self._current(st, base, b) if self.precise_heap is not None else base)
            if bv is not base or (isinstance(bv, tuple) and bv and bv[0] in ('aggr', 'tuple', 'closure', 'ovfpair')):
                if k == 'fld':
                    r = self._proj_value(st, bv, key[2], None, b)
                elif k == 'payload':
                    r = self._proj_value(st, bv, key[3], key[2], b)
                else:
                    r = ('index', bv, key[2])
                return r
        if st.hh and not self._rooted_in_local(key) and k in ('fld', 'payload', 'index'):
            return ('havoc', key)
        return key

    def _current(self, st, key, b):
        """precise_heap: the value now stored in a location that is not rooted in a local (the written value, or a projection of the value
        written to an enclosing location); the key itself when nothing on this path overwrote it."""
        if key in st.heap:
            return st.heap[key]
        if isinstance(key, tuple) and key and key[0] in ('fld', 'payload') and isinstance(key[1], tuple):
            inner = self._current(st, key[1], b)
            if inner is not key[1]:
                return self._proj_value(st, inner, key[2], None, b) if key[0] == 'fld' else self._proj_value(st, inner, key[3], key[2], b)
        return key

    def _rooted_in_local(self, key):
        while isinstance(key, tuple) and key and key[0] in ('fld', 'payload', 'index'):
            key = key[1]
        return isinstance(key, tuple) and key and key[0] == 'local'

    def _proj_value(self, st, v, name_or_idx, variant, b):
        """Project a *value* (not a location): field / variant payload of aggregates, else symbolic."""
        if variant is not None:
            if v[0] == 'aggr' and v[2] == variant:
                return v[3][name_or_idx] if name_or_idx < len(v[3]) else ('unk', 'fieldidx')
            k2 = ('payload', v, variant, name_or_idx)
            return st.heap.get(k2, k2)
        if v[0] == 'overlay':
            exact = [val for path, val in v[2] if path == (name_or_idx,)]
            if exact:
                return exact[0]
            deeper = tuple((path[1:], val) for path, val in v[2] if len(path) > 1 and path[0] == name_or_idx)
            inner = self._proj_value(st, v[1], name_or_idx, None, b) if v[1][0] in ('aggr', 'overlay') else ('fld', v[1], name_or_idx)
            return ('overlay', inner, deeper) if deeper else inner
        if v[0] == 'aggr':
            idx = name_or_idx if isinstance(name_or_idx, int) else self._field_index(v[1], v[2], name_or_idx)
            if idx is not None and idx < len(v[3]):
                return v[3][idx]
        if v[0] == 'tuple' and isinstance(name_or_idx, int) and name_or_idx < len(v[1]):
            return v[1][name_or_idx]
        if v[0] == 'closure':
            idx = name_or_idx if isinstance(name_or_idx, int) else self._closure_index(v[1], name_or_idx)
            if idx is not None and idx < len(v[2]):
                return v[2][idx]
        if v[0] == 'ovfpair' and isinstance(name_or_idx, int):
            return v[1] if name_or_idx == 0 else ('ovf', v[1])
        k2 = ('fld', v, name_or_idx)
        return st.heap.get(k2, k2)

    def _field_index(self, adt, variant, name):
        a = self.prog.adts.get(adt)
        if a:
            for v in a['variants']:
                if v['name'] == variant or len(a['variants']) == 1:
                    for i, f in enumerate(v['fields']):
                        if f['name'] == name:
                            return i
        if adt in STD_VARIANTS and isinstance(name, str) and name.isdigit():
            return int(name)
        return None

    def _closure_index(self, nid, name):
        names = self._closure_fields.get(nid)
        if names and name in names:
            return names.index(name)
        return None

    def place_key(self, b, st, pl):
        """Term naming the location.  `*` loads the pointer stored in the location reached so far."""
        key = ('local', b.nid, pl['l'])
        cur_variant = None
        for e in pl.get('p', []):
            if e == '*':
                key = self.load(st, key, b)
                if self.precise_heap is not None and isinstance(key, tuple) and key and key[0] == 'ref':
                    key = key[1]
                elif self.precise_heap is not None and isinstance(key, tuple) and key and key[0] != 'val' and not self._rooted_in_local(key):
                    # what is dereferenced is a pointer VALUE; the projections that follow name locations inside its referent.  The marker keeps
                    # the two apart: a value that was read before a location was overwritten is not re-read through it
                    key = ('val', key)
                continue
            if isinstance(e, dict):
                if 'downcast' in e:
                    cur_variant = e['downcast'] or str(e['vidx'])
                    continue
                if 'f' in e:
                    if cur_variant is not None:
                        key = ('payload', key, cur_variant, e['f'])
                        cur_variant = None
                    elif 'tuple' in e or 'name' not in e:
                        key = ('fld', key, e['f'])
                    elif 'closure' in e:
                        key = ('fld', key, e['f'])
                    else:
                        key = ('fld', key, e['name'])
                    continue
                if 'index' in e:
                    key = ('index', key, st.env.get(e['index'], ('unk', 'idx')))
                    continue
                if 'cindex' in e:
                    key = ('index', key, ('c', e['cindex']))
                    continue
            key = ('proj', key, repr(e))
        return key

    def operand(self, b, st, o):
        k = o.get('k')
        if k == 'const':
            if 'fn' in o:
                return ('fn', norm(o['fn']))
            if 'val' in o:
                v = o['val']
                if o['ty']['s'] == 'bool':
                    v = bool(v)
                return ('c', v)
            if o.get('deref_bytes_le') and (o.get('deref_ty') or {}).get('s') == 'std::time::Duration':
                # `&CONST` / a promoted reference to a Duration constant: what it points to
                d = const_duration({'ty': o['deref_ty'], 'bytes_le': o['deref_bytes_le'], 'fields': o.get('deref_fields')})
                if d is not None:
                    return ('call', 'std::time::Duration::from_secs', (('c', d[0]),)) if d[1] == 0 else ('call', 'std::time::Duration::new', (('c', d[0]), ('c', d[1])))
            if 'item' in o:
                c = self.prog.consts.get(norm(o['item']))
                if c is not None and 'val' in c:
                    return ('c', c['val'])
                if (c is None or ('val' not in c and not c.get('bytes_le'))) and '::' in str(o['item']):
                    # an associated const of a type PARAMETER (`L::FLUSH_POINT` in `fn should_apply<L: LogLimits>`): the value for the type the
                    # enclosing inlined generic function was entered with
                    tr_, _, nm_ = norm(o['item']).rpartition('::')
                    for fk_, fv_ in st.frames.items():
                        if isinstance(fk_, str) and fk_.startswith('#gargs:'):
                            for g_ in fv_:
                                c2 = self.prog.consts.get('<%s as %s>::%s' % (norm(g_), tr_, nm_))
                                if c2 is not None and ('val' in c2 or c2.get('bytes_le')):
                                    c = c2
                    if c is not None and 'val' in c:
                        return ('c', c['val'])
                d = const_duration(c)
                if d is not None:
                    # a Duration constant (free, associated, or a trait default evaluated for the impl): the value its initialiser builds
                    return ('call', 'std::time::Duration::from_secs', (('c', d[0]),)) if d[1] == 0 else ('call', 'std::time::Duration::new', (('c', d[0]), ('c', d[1])))
                return ('item', norm(o['item']))
            if 'static' in o:
                return ('static', norm(o['static']))
            return ('c', o.get('text'))
        if k in ('copy', 'move'):
            return self.read_place(b, st, o['pl'])
        return ('unk', 'operand')

    def rvalue(self, b, st, rv):
        k = rv['rv']
        if k == 'use':
            return self.operand(b, st, rv['op'])
        if k in ('ref', 'rawptr'):
            key = self.place_key(b, st, rv['pl'])
            # a reference to a location whose content is itself a symbolic object denotes that object
            if key[0] == 'local':
                v = self.load(st, key, b)
                if v[0] in ('param', 'fld', 'payload', 'call', 'unk', 'index') and not self._is_scalar_local(self.prog.bodies.get(key[1], b), key[2]):
                    return v
            if self.precise_heap is not None and isinstance(key, tuple) and key and key[0] not in ('ref', 'val') and not self._rooted_in_local(key):
                # precise mode: the ADDRESS of a location (dereferencing it gives the location back), kept apart from the pre-state CONTENT of
                # the same location, which is written as the same path
                return ('ref', key)
            return key
        if k == 'cast':
            v = self.operand(b, st, rv['op'])
            ck = rv['kind']
            if ck.startswith('IntToInt') or 'Pointer' in ck or 'Ptr' in ck or 'Transmute' in ck:
                return ('cast', v, rv['ty']['s']) if ck.startswith('IntToInt') and v[0] != 'c' else v
            return v
        if k == 'binop':
            a = self.operand(b, st, rv['a'])
            c = self.operand(b, st, rv['b'])
            op = rv['op']
            if op in ('Lt', 'Le', 'Gt', 'Ge', 'Eq', 'Ne'):
                av, cv = const_eval(a), const_eval(c)
                if av is not None and cv is not None:
                    import operator
                    f = {'Lt': operator.lt, 'Le': operator.le, 'Gt': operator.gt, 'Ge': operator.ge,
                         'Eq': operator.eq, 'Ne': operator.ne}[op]
                    return ('c', f(av, cv))
                return mk_cmp(op, a, c)
            base = op[:-len('WithOverflow')] if op.endswith('WithOverflow') else op.replace('Unchecked', '')
            if a[0] == 'c' and c[0] == 'c' and isinstance(a[1], int) and isinstance(c[1], int) and not isinstance(a[1], bool) and not isinstance(c[1], bool):
                folded = None
                try:
                    if base == 'Add': folded = a[1] + c[1]
                    elif base == 'Sub': folded = a[1] - c[1]
                    elif base == 'Mul': folded = a[1] * c[1]
                    elif base == 'Div' and c[1] != 0: folded = a[1] // c[1]
                    elif base == 'Shl': folded = a[1] << c[1]
                    elif base == 'Shr': folded = a[1] >> c[1]
                    elif base == 'BitAnd': folded = a[1] & c[1]
                    elif base == 'BitOr': folded = a[1] | c[1]
                except Exception:
                    folded = None
                if folded is not None and a[1] != 0 and c[1] != 0 and base in ('Mul', 'Div', 'Shl', 'Shr', 'BitAnd', 'BitOr'):
                    return ('ovfpair', ('c', folded)) if op.endswith('WithOverflow') else ('c', folded)
            # unsigned arithmetic with a power of two is written in its shift / mask form, whichever way the source spells it:
            # x * 2^k = x << k (where it does not overflow -- the overflow assert is a separate obligation), x / 2^k = x >> k, x % 2^k = x & (2^k - 1)
            if base in ('Mul', 'Div', 'Rem'):
                def _ty(o_):
                    if o_.get('pty'):
                        return o_['pty']
                    if o_.get('k') in ('copy', 'move') and not o_['pl'].get('p'):
                        return b.local_ty(o_['pl']['l'])['s']
                    return (o_.get('ty') or {}).get('s') if isinstance(o_.get('ty'), dict) else None
                uns = _ty(rv['a']) in ('u8', 'u16', 'u32', 'u64', 'u128', 'usize') or _ty(rv['b']) in ('u8', 'u16', 'u32', 'u64', 'u128', 'usize')

                def _pow2(x_):
                    return x_[0] == 'c' and isinstance(x_[1], int) and not isinstance(x_[1], bool) and x_[1] >= 2 and (x_[1] & (x_[1] - 1)) == 0
                nt = None
                if uns and _pow2(c):
                    k_ = c[1].bit_length() - 1
                    nt = ('bin', 'Shl', a, ('c', k_)) if base == 'Mul' else (('bin', 'Shr', a, ('c', k_)) if base == 'Div' else ('bin', 'BitAnd', a, ('c', c[1] - 1)))
                elif uns and base == 'Mul' and _pow2(a):
                    nt = ('bin', 'Shl', c, ('c', a[1].bit_length() - 1))
                if nt is not None:
                    return ('ovfpair', nt) if op.endswith('WithOverflow') else nt
            if op.endswith('WithOverflow'):
                return ('ovfpair', ('bin', op[:-len('WithOverflow')], a, c))
            if op in ('BitAnd', 'BitOr') and (self.is_boolish(a) or self.is_boolish(c)):
                return ('bool' + op[3:].lower(), a, c)
            return ('bin', op.replace('Unchecked', ''), a, c)
        if k == 'unop':
            a = self.operand(b, st, rv['a'])
            if rv['op'] == 'Not':
                oty = rv['a'].get('pty')
                if oty is None and rv['a'].get('k') in ('copy', 'move') and not rv['a']['pl'].get('p'):
                    oty = b.local_ty(rv['a']['pl']['l'])['s']
                if self.is_boolish(a) or oty == 'bool':
                    return mk_not(a)
            if rv['op'] == 'PtrMetadata':
                return ('len', a)
            return ('un', rv['op'], a)
        if k == 'discr':
            v = self.read_place(b, st, rv['pl'])
            return self.discr_of(st, v, b, rv['pl'])
        if k == 'aggr':
            ops = tuple(self.operand(b, st, o) for o in rv['ops'])
            kind = rv.get('kind')
            if kind == 'tuple':
                return ('tuple', ops)
            if kind == 'adt':
                return ('aggr', norm(rv['adt']), rv['variant'], ops)
            if kind == 'closure':
                return ('closure', norm(rv['closure']), ops)
            if kind == 'array':
                return ('coll', ops)
            return ('tuple', ops)
        if k == 'repeat':
            return ('repeat', self.operand(b, st, rv['op']))
        return ('unk', 'rvalue:' + k)

    def _is_scalar_local(self, b, l):
        if l >= len(b.locals):
            return False
        t = b.local_ty(l)['s']
        return t in ('bool', 'u8', 'u16', 'u32', 'u64', 'u128', 'usize', 'i8', 'i16', 'i32', 'i64', 'i128', 'isize', 'char') or \
            t.startswith('std::option::Option<') or t.startswith('(')

    def is_boolish(self, v):
        return v[0] in ('cmp', 'not', 'boolor', 'booland') or (v[0] == 'c' and isinstance(v[1], bool)) or \
            (v[0] == 'call' and isinstance(v[1], str) and v[1].split('::')[-1].startswith(('is_', 'has_', 'contains', 'should_')))

    def discr_of(self, st, v, b=None, pl=None):
        if v[0] == 'aggr':
            names = self.variant_names(v[1])
            if names and v[2] in names:
                return ('c', names.index(v[2]))
            return ('variantof', v[2])
        d = ('discr', v)
        if d in st.known:
            return ('c', st.known[d])
        return d

    def variant_names(self, adt):
        if adt in STD_VARIANTS:
            return STD_VARIANTS[adt]
        a = self.prog.adts.get(adt)
        if a:
            return [x['name'] for x in a['variants']]
        return None

    # -------------------------------------------------------------------------------------------
    def write_place(self, b, st, pl, val, line=None, record=True):
        if not pl.get('p'):
            st.env[pl['l']] = val
            st.heap.pop(('local', b.nid, pl['l']), None)
            return
        key = self.place_key(b, st, pl)
        self.store(st, key, val, b, line, record)

    def store(self, st, key, val, b, line=None, record=True):
        if key[0] == 'local':
            fr = st.env if key[1] == b.nid else st.frames.get(key[1], st.env)
            fr[key[2]] = val
            return
        # a field of an aggregate held in a local: rebuild the aggregate
        if key[0] in ('fld',) and isinstance(key[1], tuple) and key[1][0] == 'local':
            base = self.load(st, key[1], b)
            idx = key[2]
            if base[0] == 'tuple' and isinstance(idx, int) and idx < len(base[1]):
                items = list(base[1]); items[idx] = val
                self.store(st, key[1], ('tuple', tuple(items)), b, line, False); return
            if base[0] == 'aggr':
                i2 = idx if isinstance(idx, int) else self._field_index(base[1], base[2], idx)
                if i2 is not None and i2 < len(base[3]):
                    items = list(base[3]); items[i2] = val
                    self.store(st, key[1], ('aggr', base[1], base[2], tuple(items)), b, line, False); return
        st.heap[key] = val
        if record and not self._rooted_in_local(key):
            st.events.append(('write', key, val, line, b.nid))

    # -------------------------------------------------------------------------------------------
    def _exec(self, b, bi, st, depth, out, cont=None):
        """Run from block bi. `cont(st, retval)` is the continuation for inlined callees; for the
        top-level body results are appended to out."""
        while True:
            if self.npaths > self.max_paths:
                raise PathLimit(b.nid)
            n = st.visits.get((b.nid, bi, depth), 0)
            if n >= self.loop_visits:
                if self.emit_cut and cont is None:
                    self.npaths += 1
                    out.append(Path(st.conds, None, st.events, 'cut', st.known))
                return  # loop cut: abandon this path prefix (other exits cover it)
            st.visits[(b.nid, bi, depth)] = n + 1
            if self.trip_events and cont is None:
                hd_ = self._loop_hdr.get(('hdrs', b.nid))
                if hd_ is None:
                    hd_ = {h_ for h_, _b, _e in b.loops()}
                    self._loop_hdr[('hdrs', b.nid)] = hd_
                if bi in hd_:
                    st.events.append(('trip', b.nid, bi, None, b.nid))
            if self.havoc_loops and n == 0:
                hd = self._loop_hdr.get(b.nid)
                if hd is None:
                    hd = {}
                    for h_, body_, _back in b.loops():
                        hd.setdefault(h_, set()).update(body_)
                    self._loop_hdr[b.nid] = hd
                if bi in hd:
                    self._havoc(b, hd[bi], st)
            blk = b.blocks[bi]
            for s in blk['stmts']:
                if s['st'] == 'assign':
                    val = self.rvalue(b, st, s['rv'])
                    self.write_place(b, st, s['pl'], val, s.get('line'))
            t = blk['term']
            k = t['t']
            if k == 'goto':
                bi = t['target']; continue
            if k == 'return':
                rv = st.env.get(0, ('c', '()'))
                if cont is not None:
                    cont(st, rv)
                else:
                    self.npaths += 1
                    out.append(Path(st.conds, rv, st.events, False, st.known, dict(st.env)))
                return
            if k in ('unreachable', 'resume', 'abort'):
                if cont is None:
                    self.npaths += 1
                    out.append(Path(st.conds, None, st.events, True, st.known))
                return
            if k == 'assert':
                st.events.append(('assert', t['kind'], tuple(self.operand(b, st, o) for o in t['ops']), t.get('line'), b.nid, bi))
                bi = t['target']; continue
            if k == 'drop':
                v = self.read_place(b, st, t['pl'])
                st.events.append(('drop', v, t['ty']['s'], t.get('line'), b.nid))
                bi = t['target']; continue
            if k == 'switch':
                d = self.simplify(st, self.operand(b, st, t['discr']))
                if d[0] == 'c' and isinstance(d[1], (int, bool)):
                    val = int(d[1])
                    tgt = t['otherwise']
                    for a in t['arms']:
                        if a[0] == val:
                            tgt = a[1]
                    bi = tgt; continue
                # symbolic: fork
                arms = t['arms']
                taken = []
                for a in arms:
                    s2 = st.fork()
                    self.assume(s2, d, a[0], arms, False)
                    taken.append(a[0])
                    self._exec(b, a[1], s2, depth, out, cont)
                s2 = st
                self.assume(s2, d, taken, arms, True)
                if self.feasible_otherwise(d, taken, b, t):
                    bi = t['otherwise']; continue
                return
            if k == 'call':
                res = self.call(b, bi, t, st, depth, out, cont)
                if res is None:
                    return  # handled by continuation-passing (inlined) or diverged
                bi = res
                continue
            # other terminators: stop
            return

    def _havoc(self, b, body, st):
        mod = set()
        ptr = set()

        def note(pl):
            if any(e == '*' for e in pl.get('p', [])):
                ptr.add(pl['l'])
            else:
                mod.add(pl['l'])
        for x in body:
            blk = b.blocks[x]
            for s_ in blk['stmts']:
                if s_['st'] == 'assign':
                    note(s_['pl'])
                    rv = s_['rv']
                    if rv['rv'] in ('ref', 'rawptr') and rv.get('mut', True):
                        # a literal range that is only advanced (`for i in a..b`) keeps yielding values of [a, b): its bounds stay known
                        if not rv['pl'].get('p') and b.local_ty(rv['pl']['l'])['s'].startswith(('std::ops::Range<', 'std::ops::RangeInclusive<')):
                            continue
                        note(rv['pl'])
            t = blk['term']
            if t['t'] == 'call' and t.get('dest'):
                note(t['dest'])
        for l in ptr:
            v = st.env.get(l)
            root = v
            while isinstance(root, tuple) and root and root[0] in ('fld', 'payload', 'index'):
                root = root[1]
            if isinstance(root, tuple) and root and root[0] == 'local':
                self._unk += 1
                self.store(st, root, ('unk', 'loop%d' % self._unk), b, None, False)
        for l in mod:
            if 1 <= l or l == 0:
                self._unk += 1
                st.env[l] = ('unk', 'loop%d' % self._unk)
        st.heap = {}
        st.hh = True

    def simplify(self, st, d):
        """Evaluate a branch term against what this path already knows."""
        if d in st.known and isinstance(st.known[d], (bool, int)):
            return ('c', st.known[d])
        if d[0] == 'cmp' and d[1] in ('eq', 'ne'):
            a, c = d[2], d[3]
            for x, y in ((a, c), (c, a)):
                if x[0] == 'c' and y[0] == 'discr' and y in st.known and isinstance(st.known[y], int) and not isinstance(st.known[y], bool):
                    r = (st.known[y] == x[1])
                    return ('c', r if d[1] == 'eq' else not r)
        if d[0] == 'not':
            x = self.simplify(st, d[1])
            if x[0] == 'c':
                return ('c', not x[1])
        return d

    def learn(self, st, d, truth):
        """Derive discriminant knowledge from is_some()/is_none() style facts."""
        if d[0] == 'cmp' and d[1] == 'eq':
            for x, y in ((d[2], d[3]), (d[3], d[2])):
                if x[0] == 'c' and y[0] == 'discr' and x[1] in (0, 1):
                    st.known[y] = x[1] if truth else 1 - x[1]
        if d[0] == 'not':
            self.learn(st, d[1], not truth)

    def feasible_otherwise(self, d, taken, b, t):
        # an `otherwise` edge into a block that is just `unreachable` (all variants are listed) is not a path
        ob = b.blocks[t['otherwise']]
        if ob['term']['t'] == 'unreachable' and not ob['stmts']:
            return False
        return True

    def assume(self, st, d, val, arms, negated):
        """Record the branch decision. For boolean terms store truth; for discriminants store value."""
        if isinstance(d, tuple) and d and d[0] == 'discr' and isinstance(d[1], tuple) and d[1] and d[1][0] == 'ordering':
            # `match a.cmp(&b)`: the arm taken is a comparison literal (Less = -1 / 255, Equal = 0, Greater = 1)
            a_, b_ = d[1][1], d[1][2]
            LESS = (-1, 255)
            def lit(v_):
                return (mk_cmp('lt', a_, b_), True) if v_ in LESS else ((mk_cmp('eq', a_, b_), True) if v_ == 0 else (mk_cmp('lt', b_, a_), True))
            if not negated:
                t_, tv = lit(val)
                st.conds.append((t_, tv)); st.known[t_] = tv
            else:
                rest = [x for x in ('L', 0, 1) if not ((x == 'L' and any(v_ in LESS for v_ in val)) or (x != 'L' and x in val))]
                if len(rest) == 1:
                    t_, tv = lit(-1 if rest[0] == 'L' else rest[0])
                    st.conds.append((t_, tv)); st.known[t_] = tv
                elif len(val) == 1:
                    t_, tv = lit(val[0])
                    st.conds.append((t_, not tv)); st.known[t_] = (not tv)
            st.conds.append((d, val if not negated else ('not', tuple(val))))
            return
        if not negated:
            if self.is_boolish(d) or d[0] in ('call', 'fld', 'param', 'payload', 'unk', 'ovf', 'boolor', 'booland'):
                if len(arms) == 1 and arms[0][0] == 0:
                    st.conds.append((d, False)); st.known[d] = False; self.learn(st, d, False); return
            st.conds.append((d, val)); st.known[d] = val
        else:
            # otherwise-branch: not any of the listed values
            if len(val) == 1 and val[0] == 0 and d[0] != 'discr':
                st.conds.append((d, True)); st.known[d] = True; self.learn(st, d, True)
            elif len(val) == 1 and d[0] == 'discr':
                # two-variant enum: the other one
                other = 1 - val[0] if val[0] in (0, 1) else None
                names = None
                if other is not None:
                    st.conds.append((d, other)); st.known[d] = other
                else:
                    st.conds.append((d, ('not', tuple(val))))
            else:
                st.conds.append((d, ('not', tuple(val))))

    # -------------------------------------------------------------------------------------------
    def call(self, b, bi, t, st, depth, out, cont):
        prog = self.prog
        raw = [self.operand(b, st, a) for a in t['args']]
        # values as seen by code we do not step into: references to our own locals are replaced by
        # the current content of those locals
        targets, ext, passed = prog.call_targets(b, t)
        if self.precise_heap is not None and ext:
            # code that is modelled, not stepped into, receives references as the place keys they are
            raw = [a[1] if isinstance(a, tuple) and len(a) == 2 and a[0] == 'ref' else a for a in raw]
        args = [self.localval(st, a, b) for a in raw]
        dest = t['dest']
        target = t.get('target')
        line = t.get('line')
        callee_raw = norm(t.get('callee')) if t.get('callee') else None

        def finish(val):
            self.write_place(b, st, dest, val, line, record=True)
            return target

        name = ext or (targets[0] if len(targets) == 1 else callee_raw) or '<indirect>'
        # ---- panics / divergence
        if target is None:
            st.events.append(('diverge', name, tuple(args), line, b.nid))
            if cont is None or self.inner_diverge:
                self.npaths += 1
                out.append(Path(st.conds, None, st.events, True, st.known))
            return None
        if ext:
            m = self.model_ext(b, st, ext, args, t, depth, out, cont, target, raw)
            if m == 'handled':
                return None
            if m is not None:
                return finish(m)
            self._forget_colls(b, st, raw, args, ext, line)
            val = self.call_term(st, ext, tuple(args), [])
            st.events.append(('call', ext, tuple(args), line, b.nid, self.place_key(b, st, dest), val))
            return finish(val)
        # ---- in-crate
        if len(targets) > 1:
            # a trait method called inside a generic body (e.g. a default method calling an accessor of the same trait) fans out to all
            # impls; the receiver type is the one the calling context was entered through
            ctx_adts = set()
            for fn_ in st.frames:
                fb = prog.bodies.get(fn_)
                isf = getattr(fb, 'impl_self', None) if fb is not None else None
                if isf and isf.get('adt'):
                    ctx_adts.add(norm(isf['adt']))
                elif fb is not None and '::' in fn_ and not fn_.startswith('<'):
                    ctx_adts.add(fn_.rsplit('::', 1)[0])
            cand = [tg for tg in targets if (getattr(prog.bodies[tg], 'impl_self', None) or {}).get('adt') and norm(prog.bodies[tg].impl_self['adt']) in ctx_adts]
            sty_ = str((t.get('self_ty') or {}).get('s') or '')
            a0ty_ = str((t['args'][0].get('pty') or '') if t['args'] else '')
            import re as _re
            static_sel = bool(sty_) and not _re.search(r'(?<![A-Za-z0-9_])%s(?![A-Za-z0-9_])' % _re.escape(sty_), a0ty_)
            if len(cand) != 1 and static_sel:
                # an associated function of a type PARAMETER that takes no `self` (a selector type: `T::of(entry)`): the impl is the one of the type
                # the enclosing (inlined) generic function was instantiated with -- `f::<ByWriteTime, _>(..)`
                gadts = set()
                for fk_, fv_ in st.frames.items():
                    if isinstance(fk_, str) and fk_.startswith('#gargs:'):
                        gadts |= {norm(g_) for g_ in fv_}
                cg = [tg for tg in targets if (getattr(prog.bodies[tg], 'impl_self', None) or {}).get('adt') and norm(prog.bodies[tg].impl_self['adt']) in gadts]
                if len(cg) == 1:
                    cand = cg
            if len(cand) == 1 and cand[0] in st.frames and len(targets) == 2:
                cand = []       # the blanket / wrapper impl being executed delegates to the impl of its inner type, not to itself
            if len(cand) == 1:
                targets = cand
            else:
                # a wrapper impl (`impl<T: Tr> Tr for Option<T>`) that is being executed delegates to the impl of the wrapped type
                rest = [tg for tg in targets if tg not in st.frames]
                if len(rest) == 1 and len(targets) == 2:
                    targets = rest
        if len(targets) == 1 and self.should_inline(targets[0], depth):
            tg = prog.bodies[targets[0]]

            def k2(s2, rv, _b=b, _dest=dest, _target=target, _depth=depth, _cont=cont, _line=line):
                self.write_place(_b, s2, _dest, rv, _line, record=False)
                self._exec(_b, _target, s2, _depth, out, _cont)

            iargs = raw
            if t.get('gargs'):
                st.frames['#gargs:' + tg.nid] = tuple(str(g_) for g_ in t['gargs'])
            if tg.kind == 'closure' and callee_raw and callee_raw.startswith('std::ops::Fn') and len(raw) == 2:
                # Fn*::call*(closure, (args,)) resolved to the closure body: the body takes the arguments untupled
                iargs = [raw[0]] + self.untuple(self.localval(st, raw[1], b))
            self.inline(tg, iargs, st, depth, out, k2)
            return None
        # opaque in-crate call (trait fan-out or too large)
        cname = targets[0] if len(targets) == 1 else (callee_raw or name)
        self._forget_colls(b, st, raw, args, cname, line)
        val = self.call_term(st, cname, tuple(args), targets)
        st.events.append(('call', cname, tuple(args), line, b.nid, self.place_key(b, st, dest), val))
        return finish(val)

    def _incrate_iter_next(self, v):
        """The in-crate `Iterator::next` impl for the value's type, if the value is an aggregate of a crate-local struct that implements Iterator."""
        if not (isinstance(v, tuple) and v and v[0] == 'aggr'):
            return None
        adt = norm(str(v[1]))
        for tg in self.prog.trait_impls.get('std::iter::Iterator::next', ()):
            isf = getattr(self.prog.bodies[tg], 'impl_self', None) or {}
            if isf.get('adt') and norm(isf['adt']) == adt:
                return tg
        return None

    def _forget_colls(self, b, st, raw, args, name, line):
        """A tracked collection handed by reference to code that is not stepped into may be changed there."""
        for a, v in zip(raw, args):
            if a is not v and isinstance(v, tuple) and v and v[0] == 'coll' and isinstance(a, tuple) and a and self._rooted_in_local(a):
                if str(name).split('::')[-1] in ('iter', 'len', 'is_empty', 'as_slice', 'as_ref', 'deref', 'first', 'last', 'get', 'contains', 'clone', 'fmt'):
                    continue
                self.store(st, a, ('call', 'escaped', (v, ('c', str(name)), ('c', line))), b, line, False)

    # the intrusive list, its cache-level wrappers and the sketch are primitives of the cache-level analysis
    OPAQUE_MODULES = ('common::deque::', 'common::frequency_sketch::', 'unsync::deques::', 'common::concurrent::deques::',
                      '<common::deque::Deque as', '<<common::deque::Deque as', '<&mut common::deque::Deque as',
                      'common::time::clock::')

    PURE_EXT_LAST = {'checked_add', 'checked_sub', 'from_secs', 'from_millis', 'from_micros', 'from_nanos', 'hash_one', 'eq', 'ne',
                     'ptr_eq', 'max', 'min', 'next_power_of_two', 'count_ones', 'try_into', 'as_secs', 'as_millis', 'pow',
                     'saturating_mul', 'is_empty', 'compose', 'decompose', 'decompose_tag', 'decompose_ptr', 'discriminant',
                     'wrapping_add', 'wrapping_mul', 'saturating_add', 'saturating_sub', 'partial_cmp', 'cmp', 'lt', 'le', 'gt', 'ge'}

    def is_pure(self, name, targets):
        key = (name, tuple(targets))
        if key in self._pure:
            return self._pure[key]
        if targets:
            pure = True
            if self.eff is None:
                pure = False
            else:
                for tg in targets:
                    for r in self.prog.reachable_from([tg]):
                        d = self.eff.direct.get(r, ())
                        if any(e[0] == 'write' for e in d) or self.eff.mut_params.get(r):
                            pure = False
                        if any(e[0] == 'call' and (e[1] == 'std::time::Instant::now' or e[1].startswith('crossbeam_channel::')
                                                   or e[1].startswith('std::collections::HashMap::') or e[1].startswith('dashmap::'))
                               for e in d):
                            pure = False
        else:
            pure = str(name).split('::')[-1] in self.PURE_EXT_LAST
        self._pure[key] = pure
        return pure

    def call_term(self, st, name, args, targets):
        """Term for an opaque call result. Impure calls get an occurrence index (per path) so that two
        evaluations are different values; pure ones are structurally shared."""
        if self.is_pure(name, targets):
            return ('call', name, args)
        k = (name, args)
        n = st.occ.get(k, 0)
        st.occ[k] = n + 1
        if n == 0:
            return ('call', name, args)
        return ('call', name, args, n)

    def should_inline(self, nid, depth):
        if depth >= self.inline_depth:
            return False
        tg = self.prog.bodies[nid]
        if self.inline_pred is not None:
            r = self.inline_pred(nid, tg, depth)
            if r is not None:
                return r
        if nid.startswith(self.OPAQUE_MODULES):
            # ... except constructors of lazy iterators over the primitive (they only package a start value and a step closure) and those
            # closures: the iteration is then modelled item by item where it is consumed
            rb = self.prog.bodies.get(tg.root) if (tg.kind == 'closure' and tg.root) else tg
            if not (rb is not None and str(rb.locals[0]['ty'].get('adt') or '').startswith('std::iter::') and len(rb.blocks) <= 12 and not rb.loops()):
                return False
        if len(tg.blocks) > self.inline_max_blocks:
            return False
        if tg.loops() or tg.iterates():
            return False
        return True

    def inline(self, tg, args, st, depth, out, k):
        """Execute callee body `tg` with argument terms, continuing with k(state, retval)."""
        caller_nid = None
        for fk, fv in st.frames.items():
            if fv is st.env:
                caller_nid = fk
        saved_callee_frame = st.frames.get(tg.nid)
        env = {}
        for i in range(1, tg.argc + 1):
            env[i] = args[i - 1] if i - 1 < len(args) else ('unk', 'arg')

        def kk(s2, rv, _caller=caller_nid, _tg=tg.nid, _saved=saved_callee_frame):
            # states may have been forked: frames are looked up by name in the state at hand
            if _saved is not None:
                s2.frames[_tg] = dict(_saved)
            else:
                s2.frames.pop(_tg, None)
                s2.frames.pop('#gargs:' + _tg, None)
            if _caller is not None and _caller in s2.frames:
                s2.env = s2.frames[_caller]
            k(s2, rv)

        st.frames[tg.nid] = env
        st.env = env
        # a new activation: block visits of an earlier, finished activation of the same callee at this depth are not loop revisits
        for vk in [vk for vk in st.visits if vk[0] == tg.nid and vk[2] == depth + 1]:
            del st.visits[vk]
        self._exec(tg, 0, st, depth + 1, out, kk)

    def call_closure(self, clo, cargs, st, depth, out, k):
        """Invoke closure term with argument terms; k(state, retval)."""
        if clo[0] == 'closure' and clo[1] in self.prog.bodies and depth < self.inline_depth + 2:
            tg = self.prog.bodies[clo[1]]
            # closure bodies take (env, args...) where args may be passed untupled
            args = [clo] + list(cargs)
            self.inline(tg, args, st, depth, out, k)
            return True
        return False

    # -------------------------------------------------------------------------------------------
    def localval(self, st, a, b):
        if isinstance(a, tuple) and a and self._rooted_in_local(a):
            return self.load(st, a, b)
        return a

    def model_ext(self, b, st, ext, args, t, depth, out, cont, target, raw=None):
        """Models of std functions. Returns a term, None (= opaque), or 'handled' when the
        continuation has been invoked on forked states."""
        last = ext.split('::')[-1]
        dest = t['dest']
        line = t.get('line')
        if self.precise_heap is not None:
            args = [a[1] if isinstance(a, tuple) and len(a) == 2 and a[0] == 'ref' else a for a in args]

        def resume(s2, val):
            self.write_place(b, s2, dest, val, line, record=False)
            self._exec(b, target, s2, depth, out, cont)

        if ext.startswith(PANIC_PREFIXES):
            return None
        if ext in CMP_TRAIT and len(args) == 2:
            return mk_cmp(CMP_TRAIT[ext], self.load(st, args[0], b), self.load(st, args[1], b))
        if ext.startswith(('<&A as std::cmp::PartialOrd>::', '<&A as std::cmp::PartialEq>::', '<&mut A as std::cmp::PartialOrd>::', '<&mut A as std::cmp::PartialEq>::')) and \
                last in ('lt', 'le', 'gt', 'ge', 'eq', 'ne') and len(args) == 2:
            # the comparison of two references is the comparison of what they refer to
            return mk_cmp(last, self.load(st, args[0], b), self.load(st, args[1], b))
        if ext in LOCK_CALLS and args:
            st.events.append(('call', ext, tuple(args), line, b.nid, self.place_key(b, st, dest)))
            return ('aggr', RESULT, 'Ok', (args[0],))
        if ext in UNWRAP_CALLS and args:
            o = self.load(st, args[0], b)
            known = (o[0] == 'aggr' and o[2] in ('Some', 'Ok')) or st.known.get(('discr', o)) == (1 if 'option' in ext else 0)
            st.events.append(('unwrap', ext, o, bool(known), line, b.nid))
            return self.payload_of(st, o, ext)
        if args and is_identity_call(ext):
            return args[0]
        if ext == 'std::default::Default::default' or ext.endswith(' as std::default::Default>::default'):
            dty = b.local_ty(dest['l'])['s'] if not dest.get('p') else ''
            if dty in ('u8', 'u16', 'u32', 'u64', 'u128', 'usize', 'i8', 'i16', 'i32', 'i64', 'i128', 'isize'):
                return ('c', 0)
            if dty == 'bool':
                return ('c', False)
            if dty.startswith('std::option::Option<'):
                return NONE
        # growable collections built in the analysed code: the content is the sequence of pushed terms (a collection that reaches code we
        # do not step into by &mut is forgotten, see call())
        if last in COLL_CTORS and ext.startswith(COLL_CTOR_PREFIXES) and not (last == 'default' and 'Default>::default' not in ext):
            return ('coll', ())
        if ext in ('smallvec::SmallVec::push', 'std::vec::Vec::push') and len(args) == 2 and raw:
            cur = self.load(st, raw[0], b)
            st.events.append(('call', ext, tuple(args), line, b.nid, None))
            if isinstance(cur, tuple) and cur and cur[0] == 'coll':
                self.store(st, raw[0], ('coll', cur[1] + (args[1],)), b, line, False)
            return ('c', '()')
        if last == 'next' and ext.endswith(' as std::iter::Iterator>::next') and args and raw and isinstance(args[0], tuple) and args[0] and args[0][0] == 'coll':
            items = args[0][1]
            st.events.append(('call', ext, tuple(args), line, b.nid, None))
            if not items:
                return NONE
            self.store(st, raw[0], ('coll', items[1:]), b, line, False)
            # a loop over a collection of known content runs once per item: this trip does not count against the revisit bound
            for vk in [vk for vk in st.visits if vk[0] == b.nid and vk[2] == depth]:
                st.visits[vk] = max(0, st.visits[vk] - 1)
            return some(items[0])
        if last in ('len', 'is_empty') and ext.startswith(('smallvec::SmallVec::', 'std::vec::Vec::')) and args and isinstance(args[0], tuple) and args[0] and args[0][0] == 'coll':
            return ('c', len(args[0][1])) if last == 'len' else ('c', not args[0][1])
        if ext in ('std::mem::drop', 'core::mem::drop') and args:
            st.events.append(('call', ext, tuple(args), line, b.nid, None))
            return ('c', '()')
        if (ext in ('std::cmp::Ord::cmp',) or ext.endswith(' as std::cmp::Ord>::cmp')) and len(args) == 2:
            return ('ordering', self.load(st, args[0], b), self.load(st, args[1], b))
        if (ext in ('std::cmp::PartialOrd::partial_cmp',) or (ext.endswith(' as std::cmp::PartialOrd>::partial_cmp') and ext.startswith(INT_IMPL_PREFIXES))) and len(args) == 2:
            return some(('ordering', self.load(st, args[0], b), self.load(st, args[1], b)))
        if ext.startswith('std::cmp::Ordering::is_') and args and isinstance(args[0], tuple) and args[0] and args[0][0] == 'ordering':
            a_, b_ = args[0][1], args[0][2]
            return {'is_lt': mk_cmp('lt', a_, b_), 'is_le': mk_cmp('le', a_, b_), 'is_gt': mk_cmp('lt', b_, a_), 'is_ge': mk_cmp('le', b_, a_),
                    'is_eq': mk_cmp('eq', a_, b_), 'is_ne': mk_cmp('ne', a_, b_)}.get(last)
        if ext in ('std::mem::replace', 'core::mem::replace') and len(args) == 2 and raw:
            old = self.load(st, raw[0], b)
            self.store(st, raw[0], args[1], b, line, True)
            return old
        if ext in ('std::mem::take', 'core::mem::take') and args and raw:
            old = self.load(st, raw[0], b)
            dty = b.local_ty(dest['l'])['s'] if not dest.get('p') else ''
            dv = NONE if dty.startswith('std::option::Option<') else (('c', 0) if dty in ('u8', 'u16', 'u32', 'u64', 'u128', 'usize') else (('c', False) if dty == 'bool' else ('default', dty)))
            self.store(st, raw[0], dv, b, line, True)
            return old
        if ext in ('std::mem::swap', 'core::mem::swap') and len(args) == 2 and raw:
            x_, y_ = self.load(st, raw[0], b), self.load(st, raw[1], b)
            self.store(st, raw[0], y_, b, line, True)
            self.store(st, raw[1], x_, b, line, True)
            return ('c', '()')
        if (ext in ('std::primitive::bool::then', 'core::bool::then') or (last == 'then' and 'bool' in ext)) and len(args) == 2:
            s_f = st.fork()
            if self.assume_bool(s_f, args[0], False):
                resume(s_f, NONE)
            if self.assume_bool(st, args[0], True):
                self.apply_fn((raw or args)[1], [], st, depth, out, lambda s3, rv: resume(s3, some(rv)))
            return 'handled'
        if ext.startswith('std::option::Option::') and last in ('zip', 'or', 'or_else', 'and', 'is_some_and', 'is_none_or', 'map_or_else', 'ok_or_else', 'replace', 'insert', 'get_or_insert_with') and args:
            o = self.load(st, args[0], b)
            loc = raw[0] if raw else args[0]
            for (s2, is_some, payload) in self.option_cases(st, o):
                if last == 'zip':
                    if not is_some:
                        resume(s2, NONE); continue
                    for (s3, is2, p2) in self.option_cases(s2, self.load(s2, args[1], b)):
                        resume(s3, some(('tuple', (payload, p2))) if is2 else NONE)
                elif last == 'or':
                    resume(s2, some(payload) if is_some else args[1])
                elif last == 'or_else':
                    if is_some:
                        resume(s2, some(payload))
                    else:
                        self.apply_fn((raw or args)[1], [], s2, depth, out, lambda s3, rv: resume(s3, rv))
                elif last == 'and':
                    resume(s2, args[1] if is_some else NONE)
                elif last in ('is_some_and', 'is_none_or'):
                    if not is_some:
                        resume(s2, ('c', last == 'is_none_or'))
                    else:
                        self.apply_fn((raw or args)[1], [payload], s2, depth, out, lambda s3, rv: resume(s3, rv))
                elif last == 'map_or_else':
                    if is_some:
                        self.apply_fn((raw or args)[2], [payload], s2, depth, out, lambda s3, rv: resume(s3, rv))
                    else:
                        self.apply_fn((raw or args)[1], [], s2, depth, out, lambda s3, rv: resume(s3, rv))
                elif last == 'ok_or_else':
                    if is_some:
                        resume(s2, ('aggr', RESULT, 'Ok', (payload,)))
                    else:
                        self.apply_fn((raw or args)[1], [], s2, depth, out, lambda s3, rv: resume(s3, ('aggr', RESULT, 'Err', (rv,))))
                elif last in ('replace', 'insert'):
                    self.store(s2, loc, some(args[1]), b, line, True)
                    resume(s2, (some(payload) if is_some else NONE) if last == 'replace' else args[1])
                elif last == 'get_or_insert_with':
                    if is_some:
                        resume(s2, payload)
                    else:
                        def kg(s3, rv, _loc=loc):
                            self.store(s3, _loc, some(rv), b, line, True)
                            resume(s3, rv)
                        self.apply_fn((raw or args)[1], [], s2, depth, out, kg)
            return 'handled'
        if ext.startswith('std::result::Result::') and last in ('ok', 'err', 'map', 'map_err', 'and_then', 'unwrap_or', 'unwrap_or_else', 'unwrap_or_default', 'is_ok_and', 'is_err_and', 'or_else') and args:
            o = self.load(st, args[0], b)
            if o[0] == 'aggr' and o[1] == RESULT:
                cases = [(st, o[2] == 'Ok', o[3][0] if o[3] else ('c', '()'))]
            else:
                d_ = ('discr', o)
                if d_ in st.known:
                    ok_ = st.known[d_] == 0
                    cases = [(st, ok_, self.load(st, ('payload', o, 'Ok' if ok_ else 'Err', 0)))]
                else:
                    s_e = st.fork()
                    s_e.conds.append((d_, 1)); s_e.known[d_] = 1
                    st.conds.append((d_, 0)); st.known[d_] = 0
                    cases = [(st, True, self.load(st, ('payload', o, 'Ok', 0))), (s_e, False, self.load(s_e, ('payload', o, 'Err', 0)))]
            clo = (raw or args)[1] if len(args) > 1 else None
            for (s2, is_ok, pl) in cases:
                okv, errv = ('aggr', RESULT, 'Ok', (pl,)), ('aggr', RESULT, 'Err', (pl,))
                if last == 'ok':
                    resume(s2, some(pl) if is_ok else NONE)
                elif last == 'err':
                    resume(s2, NONE if is_ok else some(pl))
                elif last == 'map':
                    if is_ok:
                        self.apply_fn(clo, [pl], s2, depth, out, lambda s3, rv: resume(s3, ('aggr', RESULT, 'Ok', (rv,))))
                    else:
                        resume(s2, errv)
                elif last == 'map_err':
                    if is_ok:
                        resume(s2, okv)
                    else:
                        self.apply_fn(clo, [pl], s2, depth, out, lambda s3, rv: resume(s3, ('aggr', RESULT, 'Err', (rv,))))
                elif last == 'and_then':
                    if is_ok:
                        self.apply_fn(clo, [pl], s2, depth, out, lambda s3, rv: resume(s3, rv))
                    else:
                        resume(s2, errv)
                elif last == 'or_else':
                    if is_ok:
                        resume(s2, okv)
                    else:
                        self.apply_fn(clo, [pl], s2, depth, out, lambda s3, rv: resume(s3, rv))
                elif last == 'unwrap_or':
                    resume(s2, pl if is_ok else args[1])
                elif last == 'unwrap_or_else':
                    if is_ok:
                        resume(s2, pl)
                    else:
                        self.apply_fn(clo, [pl], s2, depth, out, lambda s3, rv: resume(s3, rv))
                elif last == 'unwrap_or_default':
                    dty = b.local_ty(dest['l'])['s'] if not dest.get('p') else ''
                    dv = NONE if dty.startswith('std::option::Option<') else (('c', 0) if dty in ('u8', 'u16', 'u32', 'u64', 'u128', 'usize') else (('c', False) if dty == 'bool' else ('default', dty)))
                    resume(s2, pl if is_ok else dv)
                elif last in ('is_ok_and', 'is_err_and'):
                    if is_ok == (last == 'is_ok_and'):
                        self.apply_fn(clo, [pl], s2, depth, out, lambda s3, rv: resume(s3, rv))
                    else:
                        resume(s2, ('c', False))
            return 'handled'
        if ext in ('std::result::Result::is_ok', 'std::result::Result::is_err') and args:
            o = self.load(st, args[0], b)
            if o[0] == 'aggr' and o[1] == RESULT:
                return ('c', (o[2] == 'Ok') == ext.endswith('is_ok'))
            d = ('discr', o)
            want = 0 if ext.endswith('is_ok') else 1
            if d in st.known:
                return ('c', st.known[d] == want)
            return ('cmp', 'eq', ('c', want), d)
        if ext in ('std::primitive::bool::then_some', 'core::bool::then_some', 'bool::then_some') or (last == 'then_some' and 'bool' in ext):
            if len(args) == 2:
                s_f = st.fork()
                if self.assume_bool(s_f, args[0], False):
                    resume(s_f, NONE)
                if self.assume_bool(st, args[0], True):
                    resume(st, some(args[1]))
                return 'handled'
        if ext == 'std::option::Option::is_some' and args:
            return self.is_some(st, self.load(st, args[0], b))
        if ext == 'std::option::Option::is_none' and args:
            return mk_not(self.is_some(st, self.load(st, args[0], b)))
        if ext in ('std::option::Option::unwrap_or', 'std::option::Option::unwrap_or_default',
                   'std::option::Option::map', 'std::option::Option::and_then', 'std::option::Option::map_or',
                   'std::option::Option::unwrap_or_else', 'std::option::Option::take', 'std::option::Option::ok_or',
                   'std::option::Option::filter') and args:
            o = self.load(st, args[0], b)
            cases = self.option_cases(st, o)
            loc = raw[0] if raw else args[0]
            for (s2, is_some, payload) in cases:
                self._option_op(b, s2, ext, is_some, payload, args, depth, out, resume, t, loc)
            return 'handled'
        if ext in ('std::ops::FnOnce::call_once', 'std::ops::FnMut::call_mut', 'std::ops::Fn::call') and args:
            clo = args[0]
            cargs = self.untuple(args[1]) if len(args) > 1 else []
            if isinstance(clo, tuple) and clo and clo[0] == 'fn':
                # a function item passed as a value (`f(AccessTime::last_accessed, ..)`): calling it is calling that function
                self.apply_fn(clo, cargs, st, depth, out, lambda s2, rv: resume(s2, rv))
                return 'handled'
            if self.call_closure(clo, cargs, st, depth, out, lambda s2, rv: resume(s2, rv)):
                return 'handled'
            st.events.append(('call', 'callback', tuple([clo] + list(cargs)), line, b.nid, None))
            return ('call', 'callback', tuple([clo] + list(cargs)))
        if ext.endswith('::for_each') and ('Iterator' in ext or 'iter' in ext) and len(args) == 2 and (raw or args)[1][0] == 'closure':
            clo = (raw or args)[1]
            # zero iterations
            s0 = st.fork()
            st.events.append(('call', ext, tuple(args), line, b.nid, None))
            s0.events.append(('call', ext, tuple(args), line, b.nid, None))
            resume(s0, ('c', '()'))
            # one abstract iteration with an arbitrary element of the iterated sequence
            item = ('elem', args[0])
            if self.call_closure(clo, [item], st, depth, out, lambda s2, rv: resume(s2, ('c', '()'))):
                return 'handled'
            return ('c', '()')
        if ext.startswith('dashmap::') and ext.endswith(('Entry::and_modify', 'Entry::or_insert_with', 'Entry::or_insert')) and len(args) == 2:
            # the closure forms of the map-entry API are the two arms of `match entry { Occupied(o) => .., Vacant(v) => .. }`:
            # and_modify runs its closure on the occupied slot, or_insert_with stores its closure's result into the vacant one
            E = self.load(st, args[0], b)
            clo = (raw or args)[1]
            d = ('discr', E)
            if d in st.known:
                cases = [(st, st.known[d])]
            else:
                s_v = st.fork()
                s_v.conds.append((d, 1)); s_v.known[d] = 1
                st.conds.append((d, 0)); st.known[d] = 0
                cases = [(st, 0), (s_v, 1)]
            for s2, tag in cases:
                if last == 'and_modify':
                    if tag == 0:
                        slot = ('call', OCC_GET_MUT, (('payload', E, 'Occupied', 0),))
                        s2.events.append(('call', OCC_GET_MUT, (('payload', E, 'Occupied', 0),), line, b.nid, None, slot))
                        self.apply_fn(clo, [slot], s2, depth, out, lambda s3, rv, _E=E: resume(s3, _E))
                    else:
                        resume(s2, E)
                else:
                    if tag == 0:
                        resume(s2, ('call', 'dashmap::OccupiedEntry::into_ref', (('payload', E, 'Occupied', 0),)))
                    else:
                        def kins(s3, rv, _E=E):
                            s3.events.append(('call', VAC_INSERT, (('payload', _E, 'Vacant', 0), rv), line, b.nid, None, ('call', VAC_INSERT, (('payload', _E, 'Vacant', 0), rv))))
                            resume(s3, ('call', VAC_INSERT, (('payload', _E, 'Vacant', 0), rv)))
                        if last == 'or_insert':
                            kins(s2, args[1])
                        else:
                            self.apply_fn(clo, [], s2, depth, out, kins)
            return 'handled'
        if (ext.endswith('std::ops::Try>::branch') or ext == 'std::ops::Try::branch') and args:
            # the `?` operator: Some(x)/Ok(x) -> Continue(x); None/Err(e) -> Break(residual)
            o = self.load(st, args[0], b)
            is_opt = 'option::Option' in ext or (t.get('self_ty') or {}).get('adt') == OPTION or (o[0] == 'aggr' and o[1] == OPTION)
            is_res = 'result::Result' in ext or (t.get('self_ty') or {}).get('adt') == RESULT or (o[0] == 'aggr' and o[1] == RESULT)
            if is_opt:
                for (s2, is_some, payload) in self.option_cases(st, o):
                    resume(s2, ('aggr', CONTROLFLOW, 'Continue', (payload,)) if is_some else ('aggr', CONTROLFLOW, 'Break', (NONE,)))
                return 'handled'
            if is_res:
                if o[0] == 'aggr' and o[1] == RESULT:
                    return ('aggr', CONTROLFLOW, 'Continue', (o[3][0],)) if o[2] == 'Ok' else ('aggr', CONTROLFLOW, 'Break', (o,))
                d = ('discr', o)
                if d in st.known:
                    cases = [(st, st.known[d])]
                else:
                    s_err = st.fork()
                    s_err.conds.append((d, 1)); s_err.known[d] = 1
                    st.conds.append((d, 0)); st.known[d] = 0
                    cases = [(s_err, 1), (st, 0)]
                for s2, tag in cases:
                    if tag == 0:
                        resume(s2, ('aggr', CONTROLFLOW, 'Continue', (self.load(s2, ('payload', o, 'Ok', 0)),)))
                    else:
                        resume(s2, ('aggr', CONTROLFLOW, 'Break', (('aggr', RESULT, 'Err', (self.load(s2, ('payload', o, 'Err', 0)),)),)))
                return 'handled'
        if (ext.endswith('std::ops::FromResidual>::from_residual') or ext.endswith('FromResidual::from_residual')) and args:
            return self.load(st, args[0], b)
        if ext in ('std::option::Option::iter', 'std::option::Option::iter_mut', 'std::option::Option::into_iter') and args:
            return ('opt_iter', self.load(st, args[0], b))
        if last in ('all', 'any') and len(args) == 2 and (ext.startswith('std::iter::Iterator::') or ' as std::iter::Iterator>::' in ext) and (raw or args)[1][0] in ('closure', 'fn'):
            # no item: all -> true, any -> false; one abstract item x: the closure's verdict on x
            clo = (raw or args)[1]

            def kq(s2, opt, _clo=clo, _last=last):
                if opt == NONE:
                    resume(s2, ('c', _last == 'all'))
                else:
                    self.apply_fn(_clo, [opt[3][0]], s2, depth, out, lambda s3, rv: resume(s3, rv))
            self.iter_next(b, st, args[0], depth, out, line, kq)
            return 'handled'
        if ext == 'std::iter::from_fn' and args and (raw or args)[0][0] in ('closure', 'fn'):
            return ('iter_from_fn', (raw or args)[0])
        if ext == 'std::iter::successors' and len(args) == 2 and (raw or args)[1][0] in ('closure', 'fn'):
            # stateful: (successor function, the item the next call of next() yields)
            return ('iter_succ', (raw or args)[1], self.load(st, args[0], b))
        if ext == '<std::iter::Successors as std::iter::Iterator>::next' and args and raw:
            loc = raw[0]
            it = self.load(st, loc, b) if isinstance(loc, tuple) and loc and loc[0] in ('local', 'fld') else args[0]
            if isinstance(it, tuple) and it and it[0] == 'iter_succ':
                clo, cur = it[1], it[2]
                for (s2, is_some, payload) in self.option_cases(st, cur):
                    if not is_some:
                        self.store(s2, loc, ('iter_succ', clo, NONE), b, line, False)
                        resume(s2, NONE)
                    else:
                        def ksucc(s3, rv, _pl=payload, _clo=clo):
                            self.store(s3, loc, ('iter_succ', _clo, rv), b, line, False)
                            resume(s3, some(_pl))
                        self.apply_fn(clo, [payload], s2, depth, out, ksucc)
                return 'handled'
        if ext == 'crossbeam_channel::Receiver::try_iter' and args:
            # draining a channel through its non-blocking iterator is a sequence of try_recv() calls
            return ('chan_iter', args[0])
        if last == 'next' and args and isinstance(args[0], tuple) and args[0] and args[0][0] in ITER_ADAPTORS + ('chan_iter', 'opt_iter', 'iter_from_fn') and ('Iterator' in ext or 'iter::' in ext):
            self.iter_next(b, st, args[0], depth, out, line, resume)
            return 'handled'
        if ext.endswith('Iterator::take') and len(args) == 2 and isinstance(args[0], tuple) and args[0] and args[0][0] in ('chan_iter', 'iter_from_fn'):
            return args[0]
        if ext.endswith('Iterator::take') and len(args) == 2 and self._incrate_iter_next(args[0]):
            # a bounded view of an iterator implemented in this crate: next() is "count exhausted -> None" or the inner next()
            return ('iter_take', args[0], args[1])
        if last == 'next' and ext.endswith(' as std::iter::Iterator>::next') and args and isinstance(args[0], tuple) and args[0] and args[0][0] == 'iter_take':
            it = args[0]
            s_done = st.fork()
            nx_ = ('call', 'std::iter::Iterator::next', (it,))
            s_done.conds.append((('discr', nx_), 0)); s_done.known[('discr', nx_)] = 0
            resume(s_done, NONE)
            tgt_ = self._incrate_iter_next(it[1])
            self.inline(self.prog.bodies[tgt_], [it[1]], st, depth, out, lambda s3, rv: resume(s3, rv))
            return 'handled'
        if (ext.startswith('std::iter::Iterator::') or ' as std::iter::Iterator>::' in ext) and args:
            # lazy adaptors are terms; `next` / `find` / `find_map` on them pull one abstract item through the closures
            # (items the predicate rejects are skipped by the adaptor itself: only the accepted item and exhaustion are outcomes)
            if last in ('filter', 'map', 'filter_map') and len(args) == 2 and (raw or args)[1][0] in ('closure', 'fn'):
                return ('iter_' + last, args[0], (raw or args)[1])
            if last in ('take_while', 'skip_while', 'map_while') and len(args) == 2 and (raw or args)[1][0] in ('closure', 'fn'):
                return ('iter_' + last, args[0], (raw or args)[1])
            if last == 'flatten' and len(args) == 1 and isinstance(args[0], tuple) and args[0] and args[0][0] in ITER_ADAPTORS:
                return ('iter_flatten', args[0], None)
            if last in ('rev', 'peekable', 'fuse', 'by_ref', 'copied', 'cloned') and isinstance(args[0], tuple) and args[0] and args[0][0] in ITER_ADAPTORS + ('chan_iter', 'opt_iter', 'iter_from_fn'):
                return args[0]
            if last in ('find', 'find_map') and len(args) == 2 and (raw or args)[1][0] in ('closure', 'fn'):
                it = ('iter_filter' if last == 'find' else 'iter_filter_map', args[0], (raw or args)[1])
                self.iter_next(b, st, it, depth, out, line, resume)
                return 'handled'
            if last == 'fold' and len(args) == 3 and (raw or args)[2][0] in ('closure', 'fn'):
                # zero iterations (-> init) or one abstract iteration f(init, item) with an arbitrary item of the sequence
                init, clo = args[1], (raw or args)[2]

                def kfold(s2, opt, _init=init, _clo=clo):
                    if opt == NONE:
                        resume(s2, _init)
                    else:
                        self.apply_fn(_clo, [_init, opt[3][0]], s2, depth, out, lambda s3, rv: resume(s3, rv))
                self.iter_next(b, st, args[0], depth, out, line, kfold)
                return 'handled'
            if last == 'try_fold' and len(args) == 3 and (raw or args)[2][0] in ('closure', 'fn') and not t['dest'].get('p'):
                # like fold, in the Try type R of the destination: exhaustion -> R::from_output(init); one abstract iteration -> f(init, item),
                # which is either the early exit or the accumulator the (then exhausted) sequence ends with
                dty = b.local_ty(t['dest']['l'])['s']
                wrap = None
                if dty.startswith('std::ops::ControlFlow<'):
                    wrap = lambda x: ('aggr', CONTROLFLOW, 'Continue', (x,))
                elif dty.startswith('std::option::Option<'):
                    wrap = some
                elif dty.startswith('std::result::Result<'):
                    wrap = lambda x: ('aggr', RESULT, 'Ok', (x,))
                if wrap is not None:
                    init, clo = args[1], (raw or args)[2]

                    def ktfold(s2, opt, _init=init, _clo=clo, _wrap=wrap):
                        if opt == NONE:
                            resume(s2, _wrap(_init))
                        else:
                            self.apply_fn(_clo, [_init, opt[3][0]], s2, depth, out, lambda s3, rv: resume(s3, rv))
                    self.iter_next(b, st, args[0], depth, out, line, ktfold)
                    return 'handled'
            if last == 'next' and isinstance(args[0], tuple) and args[0][0] in ITER_ADAPTORS:
                self.iter_next(b, st, args[0], depth, out, line, resume)
                return 'handled'
        if ext in ('std::cmp::Ord::max', 'std::cmp::Ord::min', 'std::cmp::max', 'std::cmp::min') and len(args) == 2:
            return ('bin', last, args[0], args[1])
        if last in ('saturating_add', 'saturating_sub', 'wrapping_add', 'wrapping_sub', 'wrapping_mul',
                    'saturating_mul') and len(args) == 2 and ext.startswith(('core::num', 'std::')):
            return ('bin', last, args[0], args[1])
        return None

    def assume_bool(self, st, term, truth):
        """Constrain the path by `term == truth`; False if that contradicts what the path knows."""
        d = self.simplify(st, term)
        if d[0] == 'c':
            return bool(d[1]) == truth
        if truth:
            self.assume(st, d, [0], [(0, None)], True)
        else:
            self.assume(st, d, 0, [(0, None)], False)
        return True

    def apply_fn(self, clo, cargs, st, depth, out, k):
        if clo[0] == 'fn':
            fn = clo[1]
            if fn in self.prog.bodies and self.should_inline(fn, depth):
                self.inline(self.prog.bodies[fn], list(cargs), st, depth, out, k)
            else:
                k(st, ('call', fn, tuple(cargs)))
            return
        if not self.call_closure(clo, list(cargs), st, depth, out, k):
            k(st, ('call', 'callback', tuple([clo] + list(cargs))))

    def iter_next(self, b, st, it, depth, out, line, k):
        """One `next()` of a (possibly adapted) iterator: k(state, Option term)."""
        kind = it[0] if isinstance(it, tuple) and it else None
        if kind in ITER_ADAPTORS:
            clo = it[2]

            def k1(s, opt):
                if opt == NONE:
                    k(s, NONE); return
                payload = opt[3][0]
                if kind == 'iter_map':
                    self.apply_fn(clo, [payload], s, depth, out, lambda s2, rv: k(s2, some(rv)))
                elif kind in ('iter_filter', 'iter_skip_while'):
                    # skip_while: the first item that is yielded is one the predicate rejects (or the sequence ends) -- abstractly any item
                    def kf(s2, rv, _want=(kind == 'iter_filter')):
                        if self.assume_bool(s2, rv, _want):
                            k(s2, some(payload))
                    self.apply_fn(clo, [payload], s, depth, out, kf)
                elif kind == 'iter_map_while':
                    def kmw(s2, rv):
                        for (s3, is_some, pl) in self.option_cases(s2, rv):
                            k(s3, some(pl) if is_some else NONE)
                    self.apply_fn(clo, [payload], s, depth, out, kmw)
                elif kind == 'iter_flatten':
                    # items that are Options: a None item is skipped by the adaptor itself
                    if isinstance(payload, tuple) and payload and payload[0] == 'aggr' and payload[1] == OPTION:
                        if payload[2] == 'Some':
                            k(s, some(payload[3][0]))
                    else:
                        nx_ = self.call_term(s, 'std::iter::Iterator::next', (it,), [])
                        s.events.append(('call', 'std::iter::Iterator::next', (it,), line, b.nid, None, nx_))
                        for (s2, is_some, pl) in self.option_cases(s, nx_):
                            k(s2, some(pl) if is_some else NONE)
                elif kind == 'iter_take_while':
                    def ktw(s2, rv):
                        s_f = s2.fork()
                        if self.assume_bool(s_f, rv, False):
                            k(s_f, NONE)
                        if self.assume_bool(s2, rv, True):
                            k(s2, some(payload))
                    self.apply_fn(clo, [payload], s, depth, out, ktw)
                else:
                    def kfm(s2, rv):
                        for (s3, is_some, pl) in self.option_cases(s2, rv):
                            if is_some:
                                k(s3, some(pl))
                    self.apply_fn(clo, [payload], s, depth, out, kfm)
            self.iter_next(b, st, it[1], depth, out, line, k1)
            return
        if kind == 'iter_from_fn':
            self.apply_fn(it[1], [], st, depth, out, lambda s2, rv: [k(s3, some(pl) if is_some else NONE) for (s3, is_some, pl) in self.option_cases(s2, rv)])
            return
        if kind == 'opt_iter':
            for (s2, is_some, pl) in self.option_cases(st, it[1]):
                k(s2, some(pl) if is_some else NONE)
            return
        if kind == 'chan_iter':
            rcv = self.call_term(st, 'crossbeam_channel::Receiver::try_recv', (it[1],), [])
            st.events.append(('call', 'crossbeam_channel::Receiver::try_recv', (it[1],), line, b.nid, None, rcv))
            d = ('discr', rcv)
            s_err = st.fork()
            s_err.conds.append((d, 1)); s_err.known[d] = 1
            st.conds.append((d, 0)); st.known[d] = 0
            k(st, some(self.load(st, ('payload', rcv, 'Ok', 0))))
            k(s_err, NONE)
            return
        nxt = self.call_term(st, 'std::iter::Iterator::next', (it,), [])
        st.events.append(('call', 'std::iter::Iterator::next', (it,), line, b.nid, None, nxt))
        for (s2, is_some, pl) in self.option_cases(st, nxt):
            k(s2, some(pl) if is_some else NONE)

    def untuple(self, v):
        if v[0] == 'tuple':
            return list(v[1])
        return [v]

    def payload_of(self, st, o, why):
        if o[0] == 'aggr' and o[2] in ('Some', 'Ok') and o[3]:
            return o[3][0]
        variant = 'Ok' if 'result' in why else 'Some'
        return self.load(st, ('payload', o, variant, 0))

    def is_some(self, st, o):
        if o[0] == 'aggr' and o[1] == OPTION:
            return ('c', o[2] == 'Some')
        d = ('discr', o)
        if d in st.known:
            return ('c', st.known[d] == 1)
        return ('cmp', 'eq', ('c', 1), d)

    def option_cases(self, st, o):
        """[(state, is_some, payload)] -- forks when the tag is unknown."""
        if o[0] == 'aggr' and o[1] == OPTION:
            return [(st, o[2] == 'Some', o[3][0] if o[3] else None)]
        d = ('discr', o)
        if d in st.known:
            v = st.known[d]
            return [(st, v == 1, self.load(st, ('payload', o, 'Some', 0)))]
        s_none = st.fork()
        s_none.conds.append((d, 0)); s_none.known[d] = 0
        st.conds.append((d, 1)); st.known[d] = 1
        return [(s_none, False, None), (st, True, self.load(st, ('payload', o, 'Some', 0)))]

    def _option_op(self, b, st, ext, is_some, payload, args, depth, out, resume, t, loc=None):
        last = ext.split('::')[-1]
        if last == 'unwrap_or':
            resume(st, payload if is_some else args[1]); return
        if last == 'unwrap_or_default':
            if is_some:
                resume(st, payload); return
            dty = b.local_ty(t['dest']['l'])['s'] if not t['dest'].get('p') else ''
            if dty.startswith('std::option::Option<'):
                resume(st, NONE)
            elif dty == 'bool':
                resume(st, ('c', False))
            elif dty in ('u8', 'u16', 'u32', 'u64', 'u128', 'usize', 'i8', 'i16', 'i32', 'i64', 'i128', 'isize'):
                resume(st, ('c', 0))
            else:
                resume(st, ('default', dty))
            return
        if last == 'ok_or':
            resume(st, ('aggr', RESULT, 'Ok', (payload,)) if is_some else ('aggr', RESULT, 'Err', (args[1],))); return
        if last == 'take':
            # old value is returned; the place becomes None
            self.store(st, loc if loc is not None else args[0], NONE, b, t.get('line'), True)
            resume(st, some(payload) if is_some else NONE); return
        if last in ('map', 'and_then', 'filter'):
            if not is_some:
                resume(st, NONE); return
            clo = args[1]
            if last == 'map':
                k = lambda s2, rv: resume(s2, some(rv))
            elif last == 'and_then':
                k = lambda s2, rv: resume(s2, rv)
            else:
                def k(s2, rv, _pl=payload):
                    d_ = self.simplify(s2, rv)
                    if d_[0] == 'c':
                        resume(s2, some(_pl) if d_[1] else NONE); return
                    s_f = s2.fork()
                    if self.assume_bool(s_f, rv, False):
                        resume(s_f, NONE)
                    if self.assume_bool(s2, rv, True):
                        resume(s2, some(_pl))
            if clo[0] == 'fn':  # e.g. .map(Instant) tuple-struct constructor or fn item
                fn = clo[1]
                if fn in self.prog.bodies and self.should_inline(fn, depth):
                    self.inline(self.prog.bodies[fn], [payload], st, depth, out, k)
                else:
                    k(st, ('call', fn, (payload,)))
                return
            if not self.call_closure(clo, [payload], st, depth, out, k):
                k(st, ('call', 'callback', (clo, payload)))
            return
        if last == 'map_or':
            if not is_some:
                resume(st, args[1]); return
            clo = args[2]
            if not self.call_closure(clo, [payload], st, depth, out, lambda s2, rv: resume(s2, rv)):
                resume(st, ('call', 'callback', (clo, payload)))
            return
        if last == 'unwrap_or_else':
            if is_some:
                resume(st, payload); return
            clo = args[1]
            if not self.call_closure(clo, [], st, depth, out, lambda s2, rv: resume(s2, rv)):
                resume(st, ('call', 'callback', (clo,)))
            return
        resume(st, ('call', ext, tuple(args)))


# ------------------------------------------------------------------------------------------------
# helpers over terms


def subterms(t):
    """All subterms (pre-order)."""
    stack = [t]
    while stack:
        x = stack.pop()
        yield x
        if isinstance(x, tuple):
            for y in x[1:] if x and isinstance(x[0], str) else x:
                if isinstance(y, tuple):
                    stack.append(y)


def contains(t, pred):
    return any(pred(x) for x in subterms(t))


def fmt(t, depth=0):
    """Compact human-readable rendering of a term."""
    if not isinstance(t, tuple) or not t:
        return str(t)
    k = t[0]
    if depth > 8:
        return '…'
    f = lambda x: fmt(x, depth + 1)
    if k == 'c':
        return str(t[1])
    if k == 'param':
        return 'arg%d' % t[1]
    if k == 'fld':
        return '%s.%s' % (f(t[1]), t[2])
    if k == 'payload':
        return '%s?%s' % (f(t[1]), '' if t[2] in ('Some', 'Ok') else t[2])
    if k == 'call':
        return '%s(%s)' % ('::'.join(str(t[1]).split('::')[-2:]), ', '.join(f(a) for a in t[2]))
    if k == 'aggr':
        return '%s(%s)' % (t[2], ', '.join(f(a) for a in t[3]))
    if k == 'tuple':
        return '(%s)' % ', '.join(f(a) for a in t[1])
    if k == 'cmp':
        return '%s %s %s' % (f(t[2]), {'lt': '<', 'le': '<=', 'eq': '==', 'ne': '!='}[t[1]], f(t[3]))
    if k == 'not':
        return '!(%s)' % f(t[1])
    if k == 'bin':
        return '%s(%s, %s)' % (t[1], f(t[2]), f(t[3]))
    if k == 'discr':
        return 'tag(%s)' % f(t[1])
    if k == 'closure':
        return 'closure<%s>' % t[1].split('::')[-2]
    if k == 'cast':
        return f(t[1])
    if k in ('boolor', 'booland'):
        return '(%s %s %s)' % (f(t[1]), '|' if k == 'boolor' else '&', f(t[2]))
    return '%s(%s)' % (k, ', '.join(f(a) if isinstance(a, tuple) else str(a) for a in t[1:]))
