"""Debug pretty-printer for extracted MIR facts:  python3 -m mokalint.show <substr-of-body-id> [config]"""
import json, sys, os

def pl(p):
    s = "_%d" % p["l"]
    for e in p.get("p", []):
        if e == "*":
            s = "(*%s)" % s
        elif isinstance(e, dict):
            if "f" in e:
                s += "." + str(e.get("name", e["f"]))
            elif "downcast" in e:
                s = "(%s as %s)" % (s, e["downcast"])
            elif "index" in e:
                s += "[_%d]" % e["index"]
            else:
                s += "<%s>" % e
        else:
            s += "<%s>" % e
    return s

def op(o):
    if o["k"] in ("copy", "move"):
        return ("move " if o["k"] == "move" else "") + pl(o["pl"])
    if "fn" in o:
        return "fn:" + o["fn"]
    if "val" in o:
        return "const %s" % o["val"]
    return "const{%s}" % o.get("text", "?")[:60]

def rv(r):
    k = r["rv"]
    if k == "use": return op(r["op"])
    if k == "ref": return "&%s%s" % ("mut " if r["mut"] else "", pl(r["pl"]))
    if k == "rawptr": return "&raw %s" % pl(r["pl"])
    if k == "cast": return "%s as %s (%s)" % (op(r["op"]), r["ty"]["s"], r["kind"])
    if k == "binop": return "%s(%s, %s)" % (r["op"], op(r["a"]), op(r["b"]))
    if k == "unop": return "%s(%s)" % (r["op"], op(r["a"]))
    if k == "discr": return "discriminant(%s)" % pl(r["pl"])
    if k == "aggr":
        n = r["kind"]
        if n == "adt": n = "%s::%s" % (r["adt"], r["variant"])
        if n == "closure": n = "closure " + r["closure"]
        return "%s{%s}" % (n, ", ".join(op(x) for x in r["ops"]))
    return "%s:%s" % (k, r.get("text", ""))

def show(b):
    print("fn", b["id"], "kind", b["kind"], "argc", b["argc"], b["span"]["file"], b["span"]["lo"])
    for i, l in enumerate(b["locals"]):
        print("   let _%d: %s%s" % (i, l["ty"]["s"], ("  // " + l["name"]) if "name" in l else ""))
    for i, bb in enumerate(b["blocks"]):
        print(" bb%d%s:" % (i, " (cleanup)" if bb["cleanup"] else ""))
        for s in bb["stmts"]:
            if s["st"] == "assign":
                print("    %s = %s" % (pl(s["pl"]), rv(s["rv"])))
            else:
                print("    ", s)
        t = bb["term"]
        k = t["t"]
        if k == "call":
            print("    %s = call %s [res=%s](%s) -> bb%s  @%s" % (pl(t["dest"]), t.get("callee", op(t["func"])), t.get("resolved"), ", ".join(op(a) for a in t["args"]), t.get("target"), t["line"]))
        elif k == "switch":
            print("    switch %s %s else bb%s" % (op(t["discr"]), t["arms"], t["otherwise"]))
        elif k == "drop":
            print("    drop %s : %s -> bb%s" % (pl(t["pl"]), t["ty"]["s"], t["target"]))
        elif k == "assert":
            print("    assert %s==%s %s -> bb%s" % (op(t["cond"]), t["expected"], t["kind"], t["target"]))
        elif k == "goto":
            print("    goto bb%s" % t["target"])
        else:
            print("    ", k, t.get("text", ""))

if __name__ == "__main__":
    cfg = sys.argv[2] if len(sys.argv) > 2 else "default"
    here = os.path.dirname(os.path.dirname(os.path.abspath(__file__)))
    facts = json.load(open(os.path.join(here, ".cache", "facts-mini_moka-%s" % cfg, "mini_moka.json")))
    for b in facts["bodies"]:
        if sys.argv[1] in b["id"]:
            show(b); print()
