"""Rule framework: context, results, violations, known findings, evidence."""
import json, os, time

from .kernel import Program, Effects, Origins, AnchorMissing, norm, short
from .symex import SymEx, PathLimit

VERIF = os.path.dirname(os.path.dirname(os.path.abspath(__file__)))


class CheckFailure(Exception):
    """The check itself cannot give a verdict (missing anchor, stale facts, floor not met).
    Exit code 2, no VIOLATION line: a broken check is not a finding."""


class Violation:
    def __init__(self, rule, function, construct, detail, message, where=None, path=None, expected=None):
        self.rule = rule
        self.function = function
        self.construct = construct
        self.detail = detail
        self.message = message
        self.where = where          # "file:line" (human-readable only; never part of the key)
        self.path = path            # entry -> ... -> offending site (call chain / CFG path / cycle)
        self.expected = expected

    @property
    def key(self):
        return '%s|%s|%s|%s' % (self.rule, self.function, self.construct, self.detail)

    def to_json(self):
        return {'rule': self.rule, 'function': self.function, 'construct': self.construct, 'detail': self.detail,
                'key': self.key, 'message': self.message, 'where': self.where, 'path': self.path,
                'expected': self.expected}


class RuleResult:
    def __init__(self, rule, statement):
        self.rule = rule
        self.statement = statement   # the rule applied, in words
        self.instances = []          # what was analysed: list of dicts (site, function, verdict, ...)
        self.violations = []
        self.notes = []
        self.floor = None
        self.assumptions = []

    def instance(self, **kw):
        self.instances.append(kw)

    def violate(self, *a, **kw):
        v = Violation(self.rule, *a, **kw)
        self.violations.append(v)
        return v

    def require_floor(self, n, what):
        """Fail closed when fewer instances than confirmed by hand were found."""
        self.floor = (n, what)
        if len(self.instances) < n and not self.violations:
            raise CheckFailure('%s: only %d instance(s) of %s analysed, expected at least %d -- the rule would '
                               'pass vacuously (anchor moved?)' % (self.rule, len(self.instances), what, n))


class Context:
    def __init__(self, facts, fixtures_facts=None, tier='quick'):
        self.facts = facts
        self.prog = Program(facts)
        self.tier = tier
        self._eff = None
        self._orig = None
        self.fixtures = Program(fixtures_facts) if fixtures_facts else None
        self.cache = {}
        self.has_sync = any(n.startswith('sync::') for n in self.prog.bodies)

    @property
    def eff(self):
        if self._eff is None:
            self._eff = Effects(self.prog)
        return self._eff

    @property
    def orig(self):
        if self._orig is None:
            self._orig = Origins(self.prog)
        return self._orig

    def symex(self, **kw):
        # thorough tier: one more trip around every loop (state carried from one iteration into the next becomes visible)
        if self.tier == 'thorough' and os.environ.get('VERIF_DEEP_LOOPS', '1') == '1' and kw.get('loop_visits') == 2 and not kw.get('havoc_loops'):
            kw = dict(kw)
            kw['loop_visits'] = 3
        return SymEx(self.prog, eff=self.eff, **kw)

    def where(self, nid, line=None):
        b = self.prog.bodies.get(nid)
        if b is None:
            return None
        return '%s:%s' % (b.file, line if line else b.line)

    def body(self, nid):
        b = self.prog.bodies.get(nid)
        if b is None:
            raise CheckFailure('anchor missing: function `%s` is not in the analysed crate' % nid)
        return b

    def adt_field(self, adt, field):
        a = self.prog.adts.get(adt)
        if a is None:
            raise CheckFailure('anchor missing: type `%s` is not in the analysed crate' % adt)
        for v in a['variants']:
            for f in v['fields']:
                if f['name'] == field:
                    return f
        raise CheckFailure('anchor missing: field `%s.%s` does not exist' % (adt, field))


def load_known_findings():
    p = os.path.join(VERIF, 'known_findings.json')
    if not os.path.exists(p):
        return {'findings': [], 'fixed': []}
    with open(p) as f:
        return json.load(f)
