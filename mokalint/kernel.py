"""Analysis kernel over the extracted facts: program model, CFG utilities, call graph,
origins (backward slices with polarity), effects, parameter-mutation summaries.

Everything here works on the type-checked MIR dumped by /verif/driver; nothing is executed.
"""
import re
from collections import defaultdict, deque

# --------------------------------------------------------------------------------------------
# identifiers


def strip_generics(s):
    """Remove balanced <...> groups (and a directly preceding '::') from a path string."""
    out = []
    depth = 0
    i = 0
    while i < len(s):
        c = s[i]
        if c == '<':
            if depth == 0 and len(out) >= 2 and out[-1] == ':' and out[-2] == ':':
                out.pop(); out.pop()
            depth += 1
        elif c == '>':
            if i > 0 and s[i - 1] == '-':  # '->'
                if depth == 0:
                    out.append(c)
            else:
                depth -= 1
        elif depth == 0:
            out.append(c)
        i += 1
    return ''.join(out)


def _split_as(inner):
    """Split 'X as Y' at top nesting level."""
    depth = 0
    i = 0
    while i < len(inner):
        c = inner[i]
        if c == '<':
            depth += 1
        elif c == '>' and not (i > 0 and inner[i - 1] == '-'):
            depth -= 1
        elif depth == 0 and inner.startswith(' as ', i):
            return inner[:i], inner[i + 4:]
        i += 1
    return inner, None


def norm(path):
    """Normalise a def path: drop generic arguments, keep `<Self as Trait>::item` structure."""
    if path is None:
        return None
    path = path.strip()
    # an impl that lives in another module than its type and trait is printed `module::<impl Trait for Type>::item`:
    # the same item as `<Type as Trait>::item` (where the impl block stands does not matter)
    k = path.find('<impl ')
    if k >= 0 and (k == 0 or path[:k].endswith('::')):
        depth = 0
        for i in range(k, len(path)):
            c = path[i]
            if c == '<':
                depth += 1
            elif c == '>' and not (i > 0 and path[i - 1] == '-'):
                depth -= 1
                if depth == 0:
                    inner, rest = path[k + 6:i], path[i + 1:]
                    d2, j = 0, -1
                    for m in range(len(inner)):
                        if inner[m] == '<':
                            d2 += 1
                        elif inner[m] == '>' and not (m > 0 and inner[m - 1] == '-'):
                            d2 -= 1
                        elif d2 == 0 and inner.startswith(' for ', m):
                            j = m
                            break
                    if j >= 0:
                        return norm('<' + inner[j + 5:] + ' as ' + inner[:j] + '>' + rest)
                    break    # inherent impls (`core::num::<impl u64>::saturating_sub`) keep their module-qualified form
    if path.startswith('<'):
        depth = 0
        for i, c in enumerate(path):
            if c == '<':
                depth += 1
            elif c == '>' and not (i > 0 and path[i - 1] == '-'):
                depth -= 1
                if depth == 0:
                    inner, rest = path[1:i], path[i + 1:]
                    a0, b0 = _split_as(inner)
                    a = norm(a0) if a0.startswith('<') else strip_generics(a0)
                    a = a.replace("&'a mut ", "&mut ").replace("&'a ", "&")
                    if b0 is None:
                        return '<' + a + '>' + norm_rest(rest)
                    plain = '<' + a + ' as ' + strip_generics(b0) + '>' + norm_rest(rest)
                    if plain.split('::{closure')[0] in _AMBIGUOUS:
                        # several impls differ only in generic arguments (`impl AccessTime for DeqNode<KeyDate<K>>` / `.. DeqNode<KeyHashDate<K>>`):
                        # keep the heads of the first-level arguments so that each impl, and each call resolved to it, keeps its own name
                        return '<' + a + _arg_heads(a0) + ' as ' + strip_generics(b0) + _arg_heads(b0) + '>' + norm_rest(rest)
                    return plain
    return strip_generics(path)


_AMBIGUOUS = set()


def _arg_heads(s):
    """'<Head1,Head2>' of the first-level generic arguments of a type path ('' if it has none)."""
    k = s.find('<')
    if k < 0 or not s.rstrip().endswith('>'):
        return ''
    inner = s[k + 1:s.rstrip().rfind('>')]
    args, depth, cur = [], 0, ''
    for i, c in enumerate(inner):
        if c == '<':
            depth += 1
        elif c == '>' and not (i > 0 and inner[i - 1] == '-'):
            depth -= 1
        if c == ',' and depth == 0:
            args.append(cur); cur = ''
        else:
            cur += c
    if cur.strip():
        args.append(cur)
    heads = [strip_generics(x.strip()) for x in args if not x.strip().startswith("'")]
    return '<' + ','.join(heads) + '>' if heads else ''


def register_ambiguous(ids):
    """Called once per fact set: def paths whose plain normal form is shared by several bodies."""
    from collections import Counter
    c = Counter(norm(i).split('::{closure')[0] for i in ids if '{closure' not in i)
    _AMBIGUOUS.update(k for k, v in c.items() if v > 1 and k.startswith('<'))


def norm_rest(rest):
    return strip_generics(rest)


def short(path):
    """Last two segments, for messages."""
    p = norm(path)
    segs = p.split('::')
    return '::'.join(segs[-2:]) if len(segs) >= 2 else p


# --------------------------------------------------------------------------------------------
# places / operands helpers


def place_fields(pl):
    """List of (adt, field_name) for every ADT field projection in the place, outermost first."""
    out = []
    for e in pl.get('p', []):
        if isinstance(e, dict) and 'f' in e and 'adt' in e:
            out.append((norm(e['adt']), e.get('name')))
    return out


def place_has_deref(pl):
    return any(e == '*' for e in pl.get('p', []))


def op_place(o):
    return o['pl'] if o and o.get('k') in ('copy', 'move') else None


def op_local(o):
    p = op_place(o)
    return p['l'] if p is not None else None


def op_const_val(o):
    if o and o.get('k') == 'const' and 'val' in o:
        return o['val']
    return None


class Body:
    def __init__(self, raw, prog):
        self.raw = raw
        self.prog = prog
        self.id = raw['id']
        self.nid = norm(raw['id'])
        self.kind = raw['kind']
        self.name = raw.get('name') or self.nid.split('::')[-1]
        self.argc = raw['argc']
        self.locals = raw['locals']
        self.blocks = raw['blocks']
        self.file = raw['span']['file']
        self.line = raw['span']['lo']
        self.vis = raw.get('vis', '')
        self.is_pub = self.vis == 'Public'
        self.root = norm(raw.get('root')) if raw.get('root') else None
        self.parent = norm(raw.get('parent')) if raw.get('parent') else None
        self.trait_item = norm(raw.get('trait_item')) if raw.get('trait_item') else None
        self.impl_trait = norm(raw.get('impl_trait')) if raw.get('impl_trait') else None
        self.impl_self = raw.get('impl_self')
        self.unsafe_fn = raw.get('unsafe_fn', False)
        self._cfg = None
        self._defs = None

    # ---- CFG (normal edges only; cleanup blocks and unwind edges are ignored) -------------
    def succs(self, bi):
        t = self.blocks[bi]['term']
        k = t['t']
        if k == 'goto':
            return [t['target']]
        if k == 'switch':
            out = [a[1] for a in t['arms']]
            out.append(t['otherwise'])
            return list(dict.fromkeys(out))
        if k in ('call', 'drop', 'assert'):
            return [t['target']] if t.get('target') is not None else []
        return []

    @property
    def normal_blocks(self):
        return [i for i, b in enumerate(self.blocks) if not b['cleanup']]

    def cfg(self):
        if self._cfg is None:
            succ = {i: [s for s in self.succs(i) if not self.blocks[s]['cleanup']] for i in self.normal_blocks}
            # reachable from entry
            seen = {0}
            dq = deque([0])
            while dq:
                x = dq.popleft()
                for s in succ.get(x, []):
                    if s not in seen:
                        seen.add(s); dq.append(s)
            succ = {i: [s for s in ss if s in seen] for i, ss in succ.items() if i in seen}
            pred = defaultdict(list)
            for i, ss in succ.items():
                for s in ss:
                    pred[s].append(i)
            self._cfg = (succ, dict(pred), seen)
        return self._cfg

    def return_blocks(self):
        succ, _, seen = self.cfg()
        return [i for i in seen if self.blocks[i]['term']['t'] == 'return']

    def dominators(self):
        succ, pred, seen = self.cfg()
        return _dominators(0, succ, pred, seen)

    def postdominators(self):
        """Post-dominators w.r.t. normal returns (virtual exit joined from all return blocks).
        Blocks that cannot reach a return (panic paths, unreachable) are treated as
        post-dominated by everything (vacuous): they are not normal exits."""
        succ, pred, seen = self.cfg()
        EXIT = -1
        rsucc = defaultdict(list)  # reversed graph
        rpred = defaultdict(list)
        for i, ss in succ.items():
            for s in ss:
                rsucc[s].append(i)
                rpred[i].append(s)
        for r in self.return_blocks():
            rsucc[EXIT].append(r)
            rpred[r].append(EXIT)
        nodes = set()
        dq = deque([EXIT])
        while dq:
            x = dq.popleft()
            if x in nodes:
                continue
            nodes.add(x)
            for s in rsucc.get(x, []):
                dq.append(s)
        return _dominators(EXIT, rsucc, rpred, nodes), nodes

    def calls(self):
        """Yield (block index, terminator) for every call terminator in normal blocks."""
        succ, _, seen = self.cfg()
        for i in sorted(seen):
            t = self.blocks[i]['term']
            if t['t'] == 'call':
                yield i, t

    def all_terms(self):
        succ, _, seen = self.cfg()
        for i in sorted(seen):
            yield i, self.blocks[i]['term']

    def stmts(self):
        succ, _, seen = self.cfg()
        for i in sorted(seen):
            for j, s in enumerate(self.blocks[i]['stmts']):
                yield i, j, s

    def local_ty(self, l):
        return self.locals[l]['ty']

    def local_name(self, l):
        return self.locals[l].get('name')

    # ---- definitions of locals --------------------------------------------------------------
    def defs(self):
        """local -> list of ('assign', bi, si, stmt) | ('call', bi, term) definitions where the
        local is assigned as a whole (no projection) or partially (projection; flagged)."""
        if self._defs is None:
            d = defaultdict(list)
            succ, _, seen = self.cfg()
            for i in sorted(seen):
                for j, s in enumerate(self.blocks[i]['stmts']):
                    if s['st'] == 'assign':
                        d[s['pl']['l']].append(('assign', i, j, s))
                t = self.blocks[i]['term']
                if t['t'] == 'call':
                    d[t['dest']['l']].append(('call', i, None, t))
            self._defs = d
        return self._defs

    def loops(self):
        """Natural loops: list of (header, set(blocks), back_edges)."""
        succ, pred, seen = self.cfg()
        dom = self.dominators()
        loops = {}
        for a, ss in succ.items():
            for h in ss:
                if h in dom.get(a, set()):  # back edge a -> h
                    body = {h}
                    stack = [a]
                    while stack:
                        x = stack.pop()
                        if x not in body:
                            body.add(x)
                            stack.extend(pred.get(x, []))
                    if h in loops:
                        loops[h][0].update(body); loops[h][1].append((a, h))
                    else:
                        loops[h] = [body, [(a, h)]]
        return [(h, b, e) for h, (b, e) in sorted(loops.items())]

    def iterates(self):
        """Does the body run an internal iteration (fold / try_fold / for_each / try_for_each of an iterator)? Such a body is a loop
        written with a consuming adaptor: it is summarised, not inlined, exactly like a body with a MIR loop."""
        if getattr(self, '_iterates', None) is None:
            self._iterates = False
            for _, t in self.calls():
                n = norm(t.get('resolved') or t.get('callee') or '')
                if n.split('::')[-1] in ('fold', 'try_fold', 'for_each', 'try_for_each') and ('Iterator' in n or 'iter::' in n):
                    self._iterates = True
                    break
        return self._iterates

    def reach(self, start, avoid=()):
        """Blocks reachable from block `start` (inclusive) without entering blocks in avoid."""
        succ, _, _ = self.cfg()
        seen = set()
        st = [start]
        while st:
            x = st.pop()
            if x in seen or x in avoid:
                continue
            seen.add(x)
            st.extend(succ.get(x, []))
        return seen


def _dominators(entry, succ, pred, nodes):
    """Iterative dominator sets: node -> set of dominators (including itself)."""
    nodes = set(nodes)
    dom = {n: set(nodes) for n in nodes}
    dom[entry] = {entry}
    # reverse postorder
    order = []
    seen = set()
    def dfs(n):
        stack = [(n, iter(succ.get(n, [])))]
        seen.add(n)
        while stack:
            x, it = stack[-1]
            adv = False
            for s in it:
                if s in nodes and s not in seen:
                    seen.add(s)
                    stack.append((s, iter(succ.get(s, []))))
                    adv = True
                    break
            if not adv:
                order.append(x)
                stack.pop()
    dfs(entry)
    order.reverse()
    changed = True
    while changed:
        changed = False
        for n in order:
            if n == entry:
                continue
            ps = [p for p in pred.get(n, []) if p in nodes and p in seen]
            if not ps:
                continue
            new = set.intersection(*[dom[p] for p in ps]) | {n}
            if new != dom[n]:
                dom[n] = new
                changed = True
    return dom


# --------------------------------------------------------------------------------------------


class Program:
    def __init__(self, facts):
        self.facts = facts
        self.crate = facts['crate']
        self.bodies = {}
        register_ambiguous([raw['id'] for raw in facts['bodies']])
        for raw in facts['bodies']:
            b = Body(raw, self)
            if b.nid in self.bodies:
                raise ValueError('two bodies share the normalised name %s' % b.nid)
            self.bodies[b.nid] = b
        self.adts = {norm(a['id']): a for a in facts['adts']}
        self.consts = {norm(c['id']): c for c in facts['consts']}
        self.impls = facts['impls']
        self.trait_impls = defaultdict(list)  # trait item nid -> [body nid]
        for b in self.bodies.values():
            if b.trait_item:
                self.trait_impls[b.trait_item].append(b.nid)
        self.closures_of = defaultdict(list)
        for b in self.bodies.values():
            if b.kind == 'closure' and b.root:
                self.closures_of[b.root].append(b.nid)
        self.drop_impls = {}  # adt nid -> body nid
        for b in self.bodies.values():
            if b.impl_trait == 'std::ops::Drop' and b.impl_self and b.impl_self.get('adt'):
                self.drop_impls[norm(b.impl_self['adt'])] = b.nid
        self._adt_names = sorted(self.adts.keys(), key=len, reverse=True)
        self._drop_reach = {}
        self._callees = {}
        self._callers = None
        self._ret_origin_cache = {}
        self._mut_params = None
        self._effects = None

    # ---- lookup helpers ---------------------------------------------------------------------
    def body(self, nid):
        return self.bodies.get(nid)

    def find(self, suffix):
        """Bodies whose normalised id ends with `suffix` (at a '::' boundary)."""
        out = []
        for nid, b in self.bodies.items():
            if nid == suffix or nid.endswith('::' + suffix) or nid.endswith(suffix) and suffix.startswith('<'):
                out.append(b)
        return out

    def one(self, nid):
        b = self.bodies.get(nid)
        if b is None:
            raise AnchorMissing("anchor missing: function `%s` not found in the analysed crate" % nid)
        return b

    # ---- drop glue approximation --------------------------------------------------------------
    def adts_in_type(self, s):
        """Local ADTs whose path occurs in the printed type `s`."""
        return [a for a in self._adt_names if re.search(r'(?<![\w:])' + re.escape(a) + r'(?![\w])', s)]

    def drop_bodies_for_type(self, tys):
        """In-crate Drop::drop bodies that dropping a value of printed type `tys` may run."""
        if tys in self._drop_reach:
            return self._drop_reach[tys]
        seen = set()
        out = set()
        work = list(self.adts_in_type(tys))
        while work:
            a = work.pop()
            if a in seen:
                continue
            seen.add(a)
            if a in self.drop_impls:
                out.add(self.drop_impls[a])
            for v in self.adts[a]['variants']:
                for f in v['fields']:
                    fs = f['ty']['s']
                    # raw pointers / references do not own
                    for sub in self.adts_in_type(fs):
                        if re.search(r'(NonNull|\*const|\*mut|&)[^,]*' + re.escape(sub), fs) and 'Box<' not in fs:
                            continue
                        work.append(sub)
        self._drop_reach[tys] = out
        return out

    # ---- call graph -------------------------------------------------------------------------
    def call_targets(self, body, term):
        """Resolved in-crate targets of a call terminator: (list of body nids, external name or None,
        list of closure nids passed as arguments)."""
        targets = []
        ext = None
        res = norm(term.get('resolved')) if term.get('resolved') else None
        callee = norm(term.get('callee')) if term.get('callee') else None
        if res and res in self.bodies:
            targets.append(res)
        elif callee and callee in self.trait_impls and (not res or res == callee):
            # unresolved in-crate trait method: fan out to every impl
            targets.extend(self.trait_impls[callee])
        elif callee and callee in self.bodies and not res:
            targets.append(callee)
        else:
            ext = res or callee
            if ext is None:
                ext = '<indirect>'
        passed = []
        for a in term['args']:
            c = self.closure_of_operand(body, a)
            if c:
                passed.extend(c)
        return targets, ext, passed

    def closure_of_operand(self, body, o, depth=0):
        """Closure bodies an operand may denote (directly, by reference, or via a local copy)."""
        l = op_local(o)
        if l is None:
            return []
        ty = body.local_ty(l)
        out = []
        if ty.get('closure'):
            c = norm(ty['closure'])
            if c in self.bodies:
                out.append(c)
        if not out and depth < 3:
            # an opaque `impl Fn..` value: built by an in-crate constructor function that returns one of its closures, or moved from another local
            for d in body.defs().get(l, []):
                if d[0] == 'call':
                    for tg in self.call_targets_nopassed(body, d[3]):
                        if self.bodies[tg].locals[0]['ty'].get('closure'):
                            c = norm(self.bodies[tg].locals[0]['ty']['closure'])
                            if c in self.bodies:
                                out.append(c)
                elif d[0] == 'assign' and d[3]['rv']['rv'] == 'use' and op_local(d[3]['rv']['op']) is not None and op_local(d[3]['rv']['op']) != l:
                    out += self.closure_of_operand(body, d[3]['rv']['op'], depth + 1)
        return out

    def call_targets_nopassed(self, body, term):
        res = norm(term.get('resolved')) if term.get('resolved') else None
        callee = norm(term.get('callee')) if term.get('callee') else None
        if res and res in self.bodies:
            return [res]
        if callee and callee in self.bodies and not res:
            return [callee]
        return []

    def callees(self, nid):
        """Set of in-crate bodies `nid` may invoke: direct calls, trait fan-out, closures it passes
        to external code or local functions, and Drop impls run by its Drop terminators."""
        if nid in self._callees:
            return self._callees[nid]
        b = self.bodies[nid]
        out = set()
        for bi, t in b.all_terms():
            if t['t'] == 'call':
                targets, ext, passed = self.call_targets(b, t)
                out.update(targets)
                out.update(passed)
                # a function item handed over as a value (`self.with_nodes(DeqNodes::take_access_order)`) is callable by the callee, like a closure
                for a_ in t['args']:
                    if isinstance(a_, dict) and a_.get('fn'):
                        f_ = norm(a_['fn'])
                        if f_ in self.bodies:
                            out.add(f_)
                        elif f_ in self.trait_impls:
                            out.update(self.trait_impls[f_])
            elif t['t'] == 'drop':
                out.update(self.drop_bodies_for_type(t['ty']['s']))
        # closures constructed here are (conservatively) callable from here
        for bi, si, s in b.stmts():
            if s['st'] == 'assign' and s['rv']['rv'] == 'aggr' and s['rv'].get('kind') == 'closure':
                c = norm(s['rv']['closure'])
                if c in self.bodies:
                    out.add(c)
        self._callees[nid] = out
        return out

    def callers(self):
        if self._callers is None:
            c = defaultdict(set)
            for nid in self.bodies:
                for t in self.callees(nid):
                    c[t].add(nid)
            self._callers = c
        return self._callers

    def reachable_from(self, roots):
        seen = set()
        st = list(roots)
        while st:
            x = st.pop()
            if x in seen or x not in self.bodies:
                continue
            seen.add(x)
            st.extend(self.callees(x))
        return seen

    def call_path(self, src, dst_pred, avoid=()):
        """Shortest call chain from body `src` to a body satisfying dst_pred (BFS)."""
        prev = {src: None}
        dq = deque([src])
        while dq:
            x = dq.popleft()
            if dst_pred(x) and x != src:
                path = []
                while x is not None:
                    path.append(x); x = prev[x]
                return list(reversed(path))
            for c in sorted(self.callees(x)):
                if c not in prev and c not in avoid:
                    prev[c] = x
                    dq.append(c)
        return None

    def public_api(self):
        """Public entry points: pub fns / methods of pub types, plus trait impls on pub types of
        std traits a user can call (Iterator::next, IntoIterator, Deref, Clone, Debug, Drop)."""
        out = []
        for b in self.bodies.values():
            if b.kind == 'closure':
                continue
            if b.is_pub:
                out.append(b.nid)
            elif b.impl_trait and b.impl_self:
                adt = b.impl_self.get('adt')
                a = self.adts.get(norm(adt)) if adt else None
                if a is not None and a.get('vis') == 'Public':
                    out.append(b.nid)
        return sorted(out)


class AnchorMissing(Exception):
    pass


# --------------------------------------------------------------------------------------------
# Origins: flow-insensitive backward slice of an operand / place to its leaf sources.
#
# A leaf is a tuple:
#   ('param', i)                 i-th parameter (1-based MIR local) of the function
#   ('field', adt, name)         a read of field `name` of ADT `adt` (any base)
#   ('call', callee_nid)         result of a call to an external function (or unresolved one)
#   ('const', value|text)        constant
#   ('aggr', adt, variant)       constructed aggregate of a local ADT
#   ('upvar', name)              closure capture (when the closure cannot be linked to its creator)
# Every leaf carries a polarity '+'/'-'/'±' telling whether it contributes positively or as a
# subtrahend.  In-crate callees are inlined through return-origin summaries.

SUB_FUNCS = ('saturating_sub', 'wrapping_sub', 'checked_sub', 'overflowing_sub')
ADD_FUNCS = ('saturating_add', 'wrapping_add', 'checked_add', 'overflowing_add')


def flip(p):
    return {'+': '-', '-': '+', '±': '±'}[p]


def join_pol(a, b):
    return a if a == b else '±'


class Origins:
    def __init__(self, prog, max_depth=6):
        self.prog = prog
        self.max_depth = max_depth
        self._ret = {}

    def of_operand(self, body, o, depth=0, pol='+', seen=None):
        if o is None:
            return {}
        if o.get('k') == 'const':
            if 'fn' in o:
                return {('fnconst', norm(o['fn'])): pol}
            v = o['val'] if 'val' in o else o.get('item') and ('item:' + norm(o['item'])) or o.get('text')
            return {('const', v): pol}
        return self.of_place(body, o['pl'], depth, pol, seen)

    def of_place(self, body, pl, depth=0, pol='+', seen=None):
        """Leaves the value stored in `pl` may derive from."""
        out = {}
        fields = place_fields(pl)
        for adt, name in fields:
            _add(out, ('field', adt, name), pol)
        _merge(out, self.of_local(body, pl['l'], depth, pol, seen))
        return out

    def of_local(self, body, l, depth=0, pol='+', seen=None):
        seen = seen if seen is not None else set()
        key = (body.nid, l, pol)
        if key in seen:
            return {}
        seen.add(key)
        out = {}
        if 1 <= l <= body.argc:
            if body.kind == 'closure' and l == 1:
                _add(out, ('closure_env',), pol)
            else:
                _add(out, ('param', l), pol)
        for d in body.defs().get(l, []):
            if d[0] == 'assign':
                _merge(out, self.of_rvalue(body, d[3]['rv'], depth, pol, seen))
            else:
                _merge(out, self.of_call(body, d[3], depth, pol, seen))
        # values written *through* a mutable reference to this local by callees are not tracked
        return out

    def of_rvalue(self, body, rv, depth, pol, seen):
        k = rv['rv']
        out = {}
        if k == 'use':
            return self.of_operand(body, rv['op'], depth, pol, seen)
        if k in ('ref', 'rawptr', 'discr'):
            return self.of_place(body, rv['pl'], depth, pol, seen)
        if k == 'cast':
            return self.of_operand(body, rv['op'], depth, pol, seen)
        if k == 'binop':
            op = rv['op']
            _merge(out, self.of_operand(body, rv['a'], depth, pol, seen))
            if op.startswith('Sub'):
                _merge(out, self.of_operand(body, rv['b'], depth, flip(pol), seen))
            else:
                _merge(out, self.of_operand(body, rv['b'], depth, pol, seen))
            return out
        if k == 'unop':
            p2 = flip(pol) if rv['op'] == 'Neg' else pol
            return self.of_operand(body, rv['a'], depth, p2, seen)
        if k == 'aggr':
            if rv.get('kind') == 'adt':
                _add(out, ('aggr', norm(rv['adt']), rv['variant']), pol)
            for o in rv['ops']:
                _merge(out, self.of_operand(body, o, depth, pol, seen))
            return out
        if k == 'repeat':
            return self.of_operand(body, rv['op'], depth, pol, seen)
        return out

    def of_call(self, body, t, depth, pol, seen):
        out = {}
        targets, ext, passed = self.prog.call_targets(body, t)
        name = (ext or '').split('::')[-1]
        if targets and depth < self.max_depth:
            for tg in targets:
                summ = self.ret_summary(tg, depth + 1)
                for leaf, p in summ.items():
                    p2 = p if pol == '+' else flip(p)
                    if leaf[0] == 'param':
                        idx = leaf[1] - 1
                        if idx < len(t['args']):
                            _merge(out, self.of_operand(body, t['args'][idx], depth, p2, seen))
                    else:
                        _add(out, leaf, p2)
            _add(out, ('via', targets[0]), pol)
            return out
        if targets:
            for tg in targets:
                _add(out, ('call', tg), pol)
        else:
            _add(out, ('call', ext), pol)
        for i, a in enumerate(t['args']):
            p2 = pol
            if name in SUB_FUNCS and i == 1:
                p2 = flip(pol)
            _merge(out, self.of_operand(body, a, depth, p2, seen))
        # closures passed: their return values feed the result (map/and_then/...)
        for c in passed:
            if depth < self.max_depth:
                summ = self.ret_summary(c, depth + 1)
                for leaf, p in summ.items():
                    if leaf[0] in ('param', 'closure_env'):
                        continue
                    _add(out, leaf, p if pol == '+' else flip(p))
        return out

    def ret_summary(self, nid, depth=0):
        """Leaves (in the callee's own terms) its return value derives from."""
        if nid in self._ret:
            return self._ret[nid]
        self._ret[nid] = {}  # recursion guard
        b = self.prog.bodies[nid]
        res = self.of_local(b, 0, depth, '+', set())
        self._ret[nid] = res
        return res


def _add(d, leaf, pol):
    if leaf in d:
        d[leaf] = join_pol(d[leaf], pol)
    else:
        d[leaf] = pol


def _merge(d, other):
    for k, v in other.items():
        _add(d, k, v)


# --------------------------------------------------------------------------------------------
# Pointer targets: which (adt, field) regions a reference-typed local may point into, and which
# parameters it may alias.  Used for write effects through `*ref = ..` and for parameter-mutation
# summaries.


class Effects:
    """Per-function primitive effects and their transitive closure.

    effect tuples:
      ('write', adt, field)   ('read', adt, field)
      ('call', external_path)
      ('construct', adt, variant)
    A write is recorded (a) for an assignment whose place contains the field projection, (b) for
    an assignment through a dereferenced local that may point into the field, (c) at a call site
    whose callee mutates (transitively) through a parameter, for the fields the argument points
    into -- this covers interior mutability (atomics, locks) via the EXT_WRITERS table.
    """

    # external methods that write through their receiver (argument 0)
    EXT_WRITERS = {
        'store', 'swap', 'compare_exchange', 'compare_exchange_weak', 'fetch_add', 'fetch_sub', 'fetch_or',
        'fetch_and', 'fetch_max', 'fetch_min', 'fetch_update', 'take', 'replace', 'insert', 'remove', 'clear',
        'push', 'pop', 'push_back', 'pop_front', 'extend', 'truncate', 'retain', 'drain', 'get_mut', 'entry',
        'get_or_insert_with', 'get_or_insert', 'set', 'write', 'lock', 'deref_mut', 'as_mut', 'iter_mut', 'borrow_mut',
        'remove_if', 'and_modify', 'or_insert_with', 'fill', 'swap_remove', 'send', 'try_send', 'recv', 'try_recv',
        'next', 'by_ref', 'for_each', 'alter', 'shrink_to_fit', 'reserve', 'sort', 'append', 'split_off',
    }
    # ... of which these only hand out a guard / reference; the write happens through the result
    EXT_PASSTHROUGH = {
        'deref', 'deref_mut', 'as_ref', 'as_mut', 'expect', 'unwrap', 'borrow', 'borrow_mut', 'lock', 'read', 'write',
        'get_mut', 'as_deref', 'as_deref_mut', 'unwrap_or_default', 'iter', 'iter_mut', 'by_ref', 'into_iter',
        'as_ptr', 'as_mut_ptr', 'from', 'into', 'clone', 'cast', 'new_unchecked', 'new', 'as_non_null_ptr',
        'decompose', 'decompose_ptr', 'decompose_non_null', 'map', 'and_then', 'ok', 'get', 'value', 'key', 'pair',
        'entry_info', 'unwrap_unchecked',
    }

    def __init__(self, prog):
        self.prog = prog
        self.points = {}      # nid -> local -> set of ('field', adt, name) | ('param', i) | ('local', l)
        self.direct = {}      # nid -> set(effects)
        self.mut_params = {}  # nid -> set(param idx (1-based))
        self.sites = defaultdict(list)  # effect -> [(nid, line)]
        self._cell_cache = {}
        self._compute()

    # ---- points-to (flow-insensitive, per function) ---------------------------------------------
    def _points_to(self, b):
        pts = defaultdict(set)
        for l in range(1, b.argc + 1):
            pts[l].add(('param', l))
        changed = True
        rounds = 0
        while changed and rounds < 20:
            changed = False
            rounds += 1
            for l, ds in b.defs().items():
                for d in ds:
                    new = set()
                    if d[0] == 'assign':
                        if d[3]['pl'].get('p'):
                            continue
                        rv = d[3]['rv']
                        k = rv['rv']
                        if k in ('ref', 'rawptr'):
                            new |= self._place_regions(b, rv['pl'], pts, rv.get('mut', False))
                        elif k in ('use', 'cast'):
                            p = op_place(rv['op'])
                            if p is not None:
                                new |= self._place_value_regions(b, p, pts)
                        elif k == 'aggr':
                            for o in rv['ops']:
                                p = op_place(o)
                                if p is not None:
                                    new |= self._place_value_regions(b, p, pts)
                    else:
                        t = d[3]
                        if t['dest'].get('p'):
                            continue
                        targets, ext, passed = self.prog.call_targets(b, t)
                        # a reference-returning accessor: the result also points to the fields the callee's return value points to
                        # (`fn accessed(&self) -> &AtomicInstant { &self.last_accessed }`), known from the previous round
                        for tg_ in targets:
                            if not self.prog.bodies[tg_].locals[0]['ty']['s'].startswith('&'):
                                continue        # (a value, not a reference into the receiver)
                            for r_ in self.points.get(tg_, {}).get(0, ()):
                                if r_[0] in ('field', 'fieldpath'):
                                    new.add(r_)
                        # the result may point wherever any reference argument points
                        for a in t['args']:
                            p = op_place(a)
                            if p is not None:
                                new |= self._place_value_regions(b, p, pts)
                    if not new <= pts[l]:
                        pts[l] |= new
                        changed = True
        return pts

    def _place_regions(self, b, pl, pts, mut):
        """Regions denoted by the place itself (for &place / &mut place)."""
        out = set()
        fs = place_fields(pl)
        m = 'mut' if mut else 'shared'
        if fs:
            out.add(('field',) + fs[-1] + (m,))
            for f in fs[:-1]:
                out.add(('fieldpath',) + f + (m,))
        base = pl['l']
        if place_has_deref(pl) or not fs:
            for r in pts.get(base, set()):
                if not mut and len(r) == 4 and r[3] == 'mut':
                    r = r[:3] + ('shared',)   # reborrowed as shared
                out.add(r)
        if not place_has_deref(pl):
            out.add(('local', base))
        return out

    def _place_value_regions(self, b, pl, pts):
        """Regions a pointer *stored in* the place may point to."""
        out = set(pts.get(pl['l'], set()))
        fs = place_fields(pl)
        if fs:
            adt, name = fs[-1]
            a = self.prog.adts.get(adt)
            if a:
                for v in a['variants']:
                    for f in v['fields']:
                        if f['name'] == name and f['ty']['s'].startswith('std::boxed::Box<'):
                            # an owned heap block is part of the field that owns it
                            out.add(('field', adt, name, 'mut'))
        return out

    # ---- direct effects ---------------------------------------------------------------------------
    def _compute(self):
        prog = self.prog
        for nid, b in prog.bodies.items():
            self.points[nid] = self._points_to(b)
        # two more rounds so that what an accessor returns reaches its callers (and their callers)
        for _round in range(2):
            for nid, b in prog.bodies.items():
                self.points[nid] = self._points_to(b)
        # pass 1: direct effects + direct param mutation
        for nid, b in prog.bodies.items():
            eff = set()
            mp = set()
            pts = self.points[nid]
            for bi, si, s in b.stmts():
                if s['st'] != 'assign':
                    continue
                pl = s['pl']
                line = s.get('line')
                for (adt, name) in place_fields(pl):
                    e = ('write', adt, name); eff.add(e); self.sites[e].append((nid, line))
                if place_has_deref(pl) or pl.get('p'):
                    for r in pts.get(pl['l'], set()):
                        if r[0] in ('field', 'fieldpath') and place_has_deref(pl):
                            if self._writable(r):
                                e = ('write', r[1], r[2]); eff.add(e); self.sites[e].append((nid, line))
                        elif r[0] == 'param' and place_has_deref(pl):
                            mp.add(r[1])
                self._reads_of_rvalue(nid, s['rv'], eff, line)
            for bi, t in b.all_terms():
                line = t.get('line')
                if t['t'] == 'switch':
                    self._reads_of_operand(nid, t['discr'], eff, line)
                if t['t'] == 'call':
                    for a in t['args']:
                        self._reads_of_operand(nid, a, eff, line)
                    targets, ext, passed = prog.call_targets(b, t)
                    if ext:
                        e = ('call', ext); eff.add(e); self.sites[e].append((nid, line))
                        name = ext.split('::')[-1]
                        if name in self.EXT_WRITERS and t['args']:
                            self._arg_written(nid, b, t['args'][0], pts, eff, mp, line)
                        # a destination written through a projection counts as write of that field
                    dpl = t['dest']
                    for (adt, name) in place_fields(dpl):
                        e = ('write', adt, name); eff.add(e); self.sites[e].append((nid, line))
                    if place_has_deref(dpl):
                        for r in pts.get(dpl['l'], set()):
                            if r[0] in ('field', 'fieldpath'):
                                if self._writable(r):
                                    e = ('write', r[1], r[2]); eff.add(e); self.sites[e].append((nid, line))
                            elif r[0] == 'param':
                                mp.add(r[1])
            for bi, si, s in b.stmts():
                if s['st'] == 'assign' and s['rv']['rv'] == 'aggr' and s['rv'].get('kind') == 'adt':
                    e = ('construct', norm(s['rv']['adt']), s['rv']['variant']); eff.add(e)
                    self.sites[e].append((nid, s.get('line')))
            self.direct[nid] = eff
            self.mut_params[nid] = mp
        # pass 2: propagate parameter mutation through in-crate calls to a fixpoint
        changed = True
        while changed:
            changed = False
            for nid, b in prog.bodies.items():
                pts = self.points[nid]
                eff = self.direct[nid]
                mp = self.mut_params[nid]
                before = (len(eff), len(mp))
                for bi, t in b.calls():
                    targets, ext, passed = prog.call_targets(b, t)
                    for tg in targets:
                        for pi in self.mut_params.get(tg, ()):  # 1-based
                            if pi - 1 < len(t['args']):
                                self._arg_written(nid, b, t['args'][pi - 1], pts, eff, mp, t.get('line'))
                if (len(eff), len(mp)) != before:
                    changed = True

    def _arg_written(self, nid, b, arg, pts, eff, mp, line):
        p = op_place(arg)
        if p is None:
            return
        for r in pts.get(p['l'], set()):
            if r[0] in ('field', 'fieldpath'):
                if not self._writable(r):
                    continue
                e = ('write', r[1], r[2])
                if e not in eff:
                    eff.add(e)
                self.sites[e].append((nid, line))
            elif r[0] == 'param':
                mp.add(r[1])

    CELL_HEADS = ('std::sync::atomic::Atomic', 'crossbeam_utils::atomic::AtomicCell', 'std::sync::Mutex<',
                  'std::sync::RwLock<', 'std::cell::', 'dashmap::DashMap<', 'crossbeam_channel::Sender<',
                  'crossbeam_channel::Receiver<', 'std::sync::OnceLock<', 'std::sync::Once')

    def is_cell_type(self, tys, _seen=None):
        """Interior-mutable *by value* (not through Arc/Box/reference indirection)."""
        tys = tys.strip()
        for w in ('std::option::Option<',):
            if tys.startswith(w):
                tys = tys[len(w):-1]
        if tys.startswith(self.CELL_HEADS):
            return True
        _seen = _seen or set()
        m = re.match(r'([\w:]+)', tys)
        if m and m.group(1) in self.prog.adts and m.group(1) not in _seen:
            _seen.add(m.group(1))
            for v in self.prog.adts[m.group(1)]['variants']:
                for f in v['fields']:
                    if self.is_cell_type(f['ty']['s'], _seen):
                        return True
        return False

    def _writable(self, r):
        """May a write through a pointer into region r modify that field?"""
        if len(r) < 4 or r[3] == 'mut':
            return True
        key = (r[1], r[2])
        if key not in self._cell_cache:
            a = self.prog.adts.get(r[1])
            ok = True  # unknown (external) ADT: be conservative
            if a:
                ok = False
                for v in a['variants']:
                    for f in v['fields']:
                        if f['name'] == r[2]:
                            ok = self.is_cell_type(f['ty']['s'])
            self._cell_cache[key] = ok
        return self._cell_cache[key]

    def _reads_of_rvalue(self, nid, rv, eff, line):
        k = rv['rv']
        if k in ('use', 'cast', 'repeat'):
            self._reads_of_operand(nid, rv['op'], eff, line)
        elif k in ('ref', 'rawptr', 'discr'):
            for (adt, name) in place_fields(rv['pl']):
                e = ('read', adt, name); eff.add(e); self.sites[e].append((nid, line))
        elif k == 'binop':
            self._reads_of_operand(nid, rv['a'], eff, line); self._reads_of_operand(nid, rv['b'], eff, line)
        elif k == 'unop':
            self._reads_of_operand(nid, rv['a'], eff, line)
        elif k == 'aggr':
            for o in rv['ops']:
                self._reads_of_operand(nid, o, eff, line)

    def _reads_of_operand(self, nid, o, eff, line):
        p = op_place(o)
        if p is None:
            return
        for (adt, name) in place_fields(p):
            e = ('read', adt, name); eff.add(e); self.sites[e].append((nid, line))

    # ---- transitive --------------------------------------------------------------------------------
    def transitive(self, nid, avoid=()):
        """Union of direct effects over everything reachable from nid in the call graph."""
        out = set()
        for r in self.prog.reachable_from([nid]) - set(avoid):
            out |= self.direct.get(r, set())
        return out

    def who_has(self, effect):
        return sorted({nid for nid, eff in self.direct.items() if effect in eff})
