"""Derived roles: internal helpers are never named by the rules; their role is recognised from what
they do (effects on anchored state fields, external primitives they call)."""
from .core import CheckFailure
from .kernel import norm

DEQUE = 'common::deque::Deque'
DEQNODE = 'common::deque::DeqNode'
SKETCH = 'common::frequency_sketch::FrequencySketch'

HASHMAP_MUT = {'std::collections::HashMap::insert', 'std::collections::HashMap::remove', 'std::collections::HashMap::clear',
               'std::collections::HashMap::remove_entry', 'std::collections::HashMap::retain', 'std::collections::HashMap::drain',
               'std::collections::HashMap::entry', 'std::collections::HashMap::get_mut', 'std::collections::HashMap::extract_if'}
HASHMAP_REMOVE = {'std::collections::HashMap::remove', 'std::collections::HashMap::remove_entry', 'std::collections::HashMap::retain',
                  'std::collections::HashMap::drain', 'std::collections::HashMap::clear', 'std::collections::HashMap::extract_if'}
HASHMAP_INSERT = {'std::collections::HashMap::insert', 'std::collections::HashMap::entry'}
DASHMAP_REMOVE = {'dashmap::DashMap::remove', 'dashmap::DashMap::remove_if', 'dashmap::DashMap::remove_if_mut', 'dashmap::DashMap::clear',
                  'dashmap::DashMap::retain', 'dashmap::mapref::entry::OccupiedEntry::remove',
                  'dashmap::mapref::entry::OccupiedEntry::remove_entry', 'dashmap::OccupiedEntry::remove', 'dashmap::OccupiedEntry::remove_entry'}
_ENTRY_INS = ('Entry::or_insert_with', 'Entry::or_insert', 'Entry::insert', 'VacantEntry::insert', 'Entry::or_default', 'Entry::or_try_insert_with',
              'Entry::insert_entry', 'OccupiedEntry::insert', 'VacantEntry::insert_entry')
_ENTRY_MUT = ('Entry::and_modify', 'OccupiedEntry::get_mut', 'OccupiedEntry::into_ref', 'OccupiedEntry::replace_entry')
# dashmap's entry types are named through the crate-root re-export (`dashmap::Entry`) or by their defining module
DASHMAP_INSERT = {'dashmap::DashMap::entry', 'dashmap::DashMap::insert'} | {pre + x for x in _ENTRY_INS for pre in ('dashmap::', 'dashmap::mapref::entry::')}
DASHMAP_MUT = DASHMAP_REMOVE | DASHMAP_INSERT | {'dashmap::DashMap::alter', 'dashmap::DashMap::alter_all', 'dashmap::DashMap::get_mut', 'dashmap::DashMap::iter_mut',
                                                  'dashmap::DashMap::shrink_to_fit'} | {pre + x for x in _ENTRY_MUT for pre in ('dashmap::', 'dashmap::mapref::entry::')}
CLOCK_READS = {'std::time::Instant::now'}
CHAN_RECV = {'crossbeam_channel::Receiver::try_recv', 'crossbeam_channel::Receiver::recv', 'crossbeam_channel::Receiver::try_iter',
             'crossbeam_channel::Receiver::iter', 'crossbeam_channel::Receiver::recv_timeout'}
CHAN_SEND = {'crossbeam_channel::Sender::try_send', 'crossbeam_channel::Sender::send', 'crossbeam_channel::Sender::send_timeout'}


class Roles:
    def __init__(self, ctx):
        self.ctx = ctx
        prog, eff = ctx.prog, ctx.eff
        ctx.adt_field(DEQUE, 'len'); ctx.adt_field(DEQUE, 'tail'); ctx.adt_field(DEQUE, 'head')
        ctx.adt_field(SKETCH, 'table')
        self.ext_calls = {}   # nid -> set(ext callee)
        for nid, b in prog.bodies.items():
            s = set()
            for bi, t in b.calls():
                _, ext, _ = prog.call_targets(b, t)
                if ext:
                    s.add(ext)
            self.ext_calls[nid] = s
        d = eff.direct
        W = lambda nid, adt, f: ('write', adt, f) in d.get(nid, ())
        self.push = {n for n in prog.bodies if W(n, DEQUE, 'len') and 'std::boxed::Box::into_raw' in self.ext_calls[n]}
        self.unlink = {n for n in prog.bodies if W(n, DEQUE, 'len') and n not in self.push}
        self.free = {n for n in prog.bodies if 'std::boxed::Box::from_raw' in self.ext_calls[n]}
        self.move = {n for n in prog.bodies if (W(n, DEQUE, 'tail') or W(n, DEQUE, 'head')) and not W(n, DEQUE, 'len')
                     and not n.endswith('::new') and prog.bodies[n].impl_trait != 'std::default::Default'}
        self.sketch_write = {n for n in prog.bodies if any(e[0] == 'write' and e[1] == SKETCH for e in d.get(n, ()))
                             and prog.bodies[n].impl_trait != 'std::default::Default'}
        # increment role: writes table and size; ensure_capacity writes table/table_mask/sample_size
        self.sketch_increment = {n for n in self.sketch_write if W(n, SKETCH, 'size') and not W(n, SKETCH, 'table_mask')}
        self.maintenance = set(prog.trait_impls.get('common::concurrent::housekeeper::InnerSync::sync', []))
        self.try_sync = {n for n in prog.bodies if any(
            e[0] == 'write' and e[1] == 'common::concurrent::housekeeper::Housekeeper' and e[2] == 'is_sync_running' for e in d.get(n, ()))}
        # the same role when the flag lives in a nested crate-local struct of the housekeeper: the function that runs the maintenance (calls
        # InnerSync::sync) and, through the flag's own methods, writes the flag
        self.sync_flag = sync_flag_fields(prog)
        if not self.try_sync and self.sync_flag:
            self.try_sync = {n for n in prog.bodies if prog.bodies[n].kind != 'closure' and (prog.callees(n) & self.maintenance) and
                             any(('write', a_, f_) in eff.transitive(n) for a_, f_ in self.sync_flag)}
        # ... or the set / reset are packaged as private helpers (`try_acquire()` / `release()`): the role is the function that calls them AND runs
        # the maintenance
        if self.try_sync and not any(prog.reachable_from([n]) & self.maintenance for n in self.try_sync):
            lifted_ts = {(prog.bodies[c].root or c) if prog.bodies[c].kind == 'closure' else c for n in self.try_sync for c in prog.callers().get(n, ())}
            lifted_ts = {c for c in lifted_ts if prog.reachable_from([c]) & self.maintenance}
            if lifted_ts:
                self.try_sync = lifted_ts
        # read-only list primitives, by what they read and return (names are not used)
        R_ = lambda nid, adt, f: ('read', adt, f) in d.get(nid, ())
        nowrite = lambda nid: not any(e[0] == 'write' for e in d.get(nid, ())) and not eff.mut_params.get(nid)
        inlist = lambda nid: nid.startswith(('common::deque::', '<common::deque::')) or (prog.bodies[nid].root or '').startswith('common::deque::') or \
            (nid.startswith('<') and ' as common::deque::' in nid.split('>::')[0])      # an extension trait of the list module on the node pointer
        ret = lambda nid: prog.bodies[prog.bodies[nid].root or nid].locals[0]['ty']['s'] if prog.bodies[nid].kind == 'closure' else prog.bodies[nid].locals[0]['ty']['s']
        roots = lambda S: {(prog.bodies[n].root or n) if prog.bodies[n].kind == 'closure' else n for n in S}
        # front accessors: read Deque.head (possibly in a closure), write nothing, return the node / a pointer to it
        self.front = roots({n for n in prog.bodies if inlist(n) and R_(n, DEQUE, 'head') and nowrite(n)})
        self.front = {n for n in self.front if 'DeqNode' in prog.bodies[n].locals[0]['ty']['s'] and prog.bodies[n].argc == 1 and nowrite(n)
                      and not any(e[0] == 'write' for x in prog.reachable_from([n]) for e in d.get(x, ()))}
        # successor accessor: reads DeqNode.next, writes nothing, returns a node pointer
        self.succ = {n for n in prog.bodies if inlist(n) and R_(n, DEQNODE, 'next') and nowrite(n) and 'DeqNode' in prog.bodies[n].locals[0]['ty']['s']
                     and prog.bodies[n].kind != 'closure' and prog.bodies[n].argc == 1 and 'DeqNode' in prog.bodies[n].locals[1]['ty']['s']}
        # ... or a thin wrapper of the list module around it (same signature shape, writes nothing)
        self.succ |= {n for n in prog.bodies if inlist(n) and nowrite(n) and 'DeqNode' in prog.bodies[n].locals[0]['ty']['s'] and prog.bodies[n].kind != 'closure'
                      and prog.bodies[n].argc == 1 and 'DeqNode' in prog.bodies[n].locals[1]['ty']['s'] and (prog.callees(n) & self.succ)
                      and not any(e[0] == 'write' for x in prog.reachable_from([n]) for e in d.get(x, ()))}
        # ... or the next() of a node iterator of the list module that is built on it (yields the successor pointer, keeps it as its state)
        self.succ |= {n for n in prog.bodies if inlist(n) and prog.bodies[n].trait_item == 'std::iter::Iterator::next' and 'DeqNode' in prog.bodies[n].locals[0]['ty']['s']
                      and (prog.reachable_from([n]) & self.succ) and not any(e[0] == 'write' and e[1] in (DEQUE, DEQNODE) for x in prog.reachable_from([n]) for e in d.get(x, ()))}
        # ... and the constructor of such an iterator is a front accessor (the walk it returns starts at the front node)
        iter_adts = {norm(str((prog.bodies[n].impl_self or {}).get('adt') or '')) for n in self.succ if prog.bodies[n].trait_item == 'std::iter::Iterator::next'}
        self.front |= {n for n in prog.bodies if inlist(n) and prog.bodies[n].kind != 'closure' and prog.bodies[n].argc == 1 and nowrite(n) and
                       norm(str(prog.bodies[n].locals[0]['ty'].get('adt') or '')) in iter_adts and (prog.reachable_from([n]) & self.front)}
        # membership test: bool, reads DeqNode.prev of the node it is given
        self.member = {n for n in prog.bodies if inlist(n) and R_(n, DEQNODE, 'prev') and nowrite(n) and prog.bodies[n].locals[0]['ty']['s'] == 'bool'}
        # pop: frees the front node (writes len, calls Box::from_raw) and takes no node
        self.pop = {n for n in roots(self.unlink & self.free) if not any('NonNull<common::deque::DeqNode' in l['ty']['s'] for l in prog.bodies[n].locals[1:prog.bodies[n].argc + 1])}
        # the non-freeing unlink of a given node
        self.unlink_node = {n for n in self.unlink if n not in self.free}
        # a move primitive whose pointer surgery lives in private helpers of the list module: the role is the function the other modules call
        _root = lambda c: prog.bodies[c].root if prog.bodies[c].kind == 'closure' and prog.bodies[c].root else c
        # a head / tail writer that the push / unlink / pop roles call as well is a shared LINK HELPER (`set_next_of(prev, next)`: neighbour or head),
        # not a move primitive: the move role is then the list operation that calls such helpers, writes no length and is none of the other roles
        link_helpers = {n for n in self.move if {_root(c) for c in prog.callers().get(n, ())} & (self.push | self.unlink | self.free)}
        if link_helpers:
            self.move = (self.move - link_helpers) | {c for c in prog.bodies if inlist(c) and prog.bodies[c].kind != 'closure' and c not in link_helpers and
                                                      (prog.callees(c) & link_helpers) and c not in (self.push | self.unlink | self.free) and
                                                      not ('write', DEQUE, 'len') in eff.transitive(c)}
        self.link_helpers = link_helpers
        self.move_prims = set(self.move)      # the functions that write head / tail themselves
        for _ in range(3):
            lifted = False
            for n in sorted(self.move):
                cs = {_root(c) for c in prog.callers().get(n, ())} - {n}
                if cs and all(inlist(c) and c not in (self.push | self.unlink | self.free) and not W(c, DEQUE, 'len') and prog.bodies[c].kind != 'closure' for c in cs):
                    self.move.discard(n)
                    self.move |= cs
                    lifted = True
            if not lifted:
                break
        if not self.push or not self.unlink or not self.move or not self.free:
            raise CheckFailure('role derivation failed: deque roles push=%s unlink=%s move=%s free=%s' % (
                sorted(self.push), sorted(self.unlink), sorted(self.move), sorted(self.free)))
        if not self.sketch_increment:
            raise CheckFailure('role derivation failed: no sketch increment role')

    def reaches(self, src, targets):
        """First call path from src to any function in `targets` (or None)."""
        if not targets:
            return None
        return self.ctx.prog.call_path(src, lambda x: x in targets)

    def ext_sites(self, names, within=None):
        """[(nid, ext, line)] for every call of an external function in `names`."""
        out = []
        prog = self.ctx.prog
        for nid, b in prog.bodies.items():
            if within is not None and nid not in within:
                continue
            if not (self.ext_calls[nid] & set(names)):
                continue
            for bi, t in b.calls():
                _, ext, _ = prog.call_targets(b, t)
                if ext in names:
                    out.append((nid, ext, t.get('line'), bi))
        return out


def get_roles(ctx):
    if 'roles' not in ctx.cache:
        ctx.cache['roles'] = Roles(ctx)
    return ctx.cache['roles']


def recv_types(ctx, nid):
    """Concatenated element types of the channels a function receives from (try_recv / recv / try_iter / iter), in its own body or in
    the closures it builds (e.g. `iter::from_fn(|| ch.try_recv().ok())`)."""
    prog = ctx.prog
    out = ''
    for x in [nid] + list(prog.closures_of.get(nid, [])):
        bx = prog.bodies.get(x)
        if bx is None:
            continue
        for _, t in bx.calls():
            if prog.call_targets(bx, t)[1] in CHAN_RECV:
                out += (t.get('self_ty') or {}).get('s', '') + ' '
    return out


def ts_name_kind(name):
    """Which per-entry timestamp store a field name denotes: 'wo' (last modified) / 'ao' (last accessed) / None.  The two stores are
    told apart by the stem of their name (last_modified, modified, mtime_.. do not all qualify: `modif` / `access` must occur)."""
    n = str(name).lower()
    if 'order' in n or 'node' in n:
        return None
    if 'modif' in n:
        return 'wo'
    if 'access' in n:
        return 'ao'
    return None


def sync_flag_fields(prog, root='common::concurrent::housekeeper::Housekeeper'):
    """[(adt, field)] of the AtomicBool that serialises maintenance: a field of the housekeeper, or of a crate-local struct nested in it."""
    out = []
    seen = set()
    work = [root]
    while work:
        an = work.pop()
        if an in seen or an not in prog.adts:
            continue
        seen.add(an)
        for v in prog.adts[an]['variants']:
            for f in v['fields']:
                ty = f['ty']
                if ty['s'] in ('std::sync::atomic::Atomic<bool>', 'std::sync::atomic::AtomicBool'):
                    out.append((an, f['name']))
                elif norm(str(ty.get('adt') or '')) in prog.adts and norm(str(ty.get('adt'))).startswith('common::concurrent::housekeeper::'):
                    work.append(norm(str(ty['adt'])))
    return sorted(out)


def sync_ts_fields(ctx):
    """[(adt, field)] of the per-entry timestamp stores of the concurrent cache: AtomicInstant fields outside the cache state itself."""
    out = []
    for adt, a in ctx.prog.adts.items():
        if not adt.startswith('common::concurrent::'):
            continue
        for v in a['variants']:
            for f in v['fields']:
                if f['ty']['s'].endswith('AtomicInstant') and ts_name_kind(f['name']):
                    out.append((adt, f['name']))
    return sorted(out)


def wrapper_kind(ctx, fn):
    """(action, queue) of a cache-level deque wrapper, by what it does: action = push / unlink / move (which list primitive role it
    reaches), queue = ao / wo (which node pointer of the entry it touches: access_order_q_node / write_order_q_node).  None for
    anything that is not a pure list wrapper (touches the map, or is itself a list primitive)."""
    cache = ctx.cache.setdefault('wrapper_kind', {})
    if fn in cache:
        return cache[fn]
    prog, eff = ctx.prog, ctx.eff
    R = get_roles(ctx)
    res = None
    b = prog.bodies.get(fn)
    if b is not None and not fn.startswith(('common::deque::', '<common::deque::')) and b.kind != 'closure':
        reach = prog.reachable_from([fn])
        touches_map = any(x.startswith(('std::collections::HashMap::', 'dashmap::')) for r_ in reach for x in R.ext_calls.get(r_, ()))
        unlink_prims = {n for n in R.unlink if any('NonNull<common::deque::DeqNode' in l['ty']['s'] for l in prog.bodies[n].locals[1:prog.bodies[n].argc + 1])}
        act = None
        if reach & R.push:
            act = 'push'
        elif reach & unlink_prims:
            act = 'unlink'
        elif reach & R.move:
            act = 'move'
        if act and not touches_map:
            fields = {e[2] for e in eff.transitive(fn) if e[0] in ('read', 'write') and e[2] in ('access_order_q_node', 'write_order_q_node')}
            q = None
            if fields == {'access_order_q_node'}:
                q = 'ao'
            elif fields == {'write_order_q_node'}:
                q = 'wo'
            else:
                tys = ' '.join(l['ty']['s'] for l in b.locals[1:b.argc + 1])
                if 'KeyHashDate' in tys and 'KeyDate<' not in tys.replace('KeyHashDate', ''):
                    q = 'ao'
                elif 'KeyDate<' in tys and 'KeyHashDate' not in tys:
                    q = 'wo'
            res = (act, q)
    cache[fn] = res
    return res


def ev_is(ctx, e, action, queue=None):
    """Event e is a call of a deque wrapper with that action (and queue)."""
    if e[0] != 'call' or e[1] not in ctx.prog.bodies:
        return False
    wk = wrapper_kind(ctx, e[1])
    return bool(wk) and wk[0] == action and (queue is None or wk[1] == queue)


def write_scheduler(ctx):
    """The function that queues a write op: loops around Sender::try_send of a WriteOp (the only intended retry loop)."""
    if 'write_scheduler' not in ctx.cache:
        prog = ctx.prog
        out = []
        for n, b in prog.bodies.items():
            if b.kind == 'closure' or not b.loops():
                continue
            for h, body, _ in b.loops():
                for bi in body:
                    t = b.blocks[bi]['term']
                    if t['t'] == 'call' and prog.call_targets(b, t)[1] == 'crossbeam_channel::Sender::try_send' and 'WriteOp' in (t.get('self_ty') or {}).get('s', ''):
                        out.append(n)
        ctx.cache['write_scheduler'] = sorted(set(out))
    return ctx.cache['write_scheduler']


def upsert_fields(ctx):
    """Canonical role names of the fields of WriteOp::Upsert, by type and declaration order (rename-independent)."""
    adt = ctx.prog.adts.get('common::concurrent::WriteOp')
    fields = []
    if adt:
        u32_seen = 0
        for v in adt['variants']:
            if v['name'] != 'Upsert':
                continue
            for f in v['fields']:
                ty = f['ty']['s']
                if 'KeyHash' in ty:
                    fields.append('key_hash')
                elif 'ValueEntry' in ty:
                    fields.append('value_entry')
                elif ty == 'u32':
                    fields.append('old_weight' if u32_seen == 0 else 'new_weight')
                    u32_seen += 1
                else:
                    fields.append(f['name'])
    return fields


def upsert_role(ctx):
    """The function that applies a WriteOp::Upsert, found through the write-op consumer: the in-crate callee that receives the
    payload fields of the Upsert variant.  Returns {'nid', 'key', 'entry', 'old', 'new'} (1-based parameter indices) or None.
    Independent of function and parameter names (only the field names of WriteOp::Upsert are used)."""
    if 'upsert_role' in ctx.cache:
        return ctx.cache['upsert_role']
    prog = ctx.prog
    res = None
    adt = prog.adts.get('common::concurrent::WriteOp')
    if adt:
        fields = []
        u32_seen = 0
        for v in adt['variants']:
            if v['name'] != 'Upsert':
                continue
            for f in v['fields']:
                ty = f['ty']['s']
                # by type, so that renaming the fields does not matter: key, entry, then the two weights in declaration order (old, new)
                if 'KeyHash' in ty:
                    fields.append('key_hash')
                elif 'ValueEntry' in ty:
                    fields.append('value_entry')
                elif ty == 'u32':
                    fields.append('old_weight' if u32_seen == 0 else 'new_weight')
                    u32_seen += 1
                else:
                    fields.append(f['name'])
        R = get_roles(ctx)
        for nid, b in prog.bodies.items():
            if b.kind == 'closure' or not nid.startswith('sync::'):
                continue
            is_cons = 'WriteOp' in recv_types(ctx, nid)
            if not is_cons:
                continue
            sx = ctx.symex(inline_depth=0, loop_visits=2, inline_pred=lambda n_, bb, d: False)
            for p in sx.run(nid):
                for e in p.events:
                    if e[0] != 'call' or e[1] not in prog.bodies:
                        continue
                    pos, term = {}, {}
                    for i, a in enumerate(e[2]):
                        if isinstance(a, tuple) and a and a[0] == 'payload' and a[2] == 'Upsert' and isinstance(a[3], int) and a[3] < len(fields):
                            pos[fields[a[3]]] = i + 1
                            term[fields[a[3]]] = ('param', i + 1)
                        elif isinstance(a, tuple) and a and a[0] == 'aggr' and norm(str(a[1])) in prog.adts:
                            # the fields travel in an argument struct: callee-side term = field of that parameter
                            ad_ = prog.adts[norm(str(a[1]))]
                            fn_ = [f_['name'] for f_ in ad_['variants'][0]['fields']]
                            for j, fv in enumerate(a[3]):
                                if isinstance(fv, tuple) and fv and fv[0] == 'payload' and fv[2] == 'Upsert' and isinstance(fv[3], int) and fv[3] < len(fields) and j < len(fn_):
                                    term[fields[fv[3]]] = ('fld', ('param', i + 1), fn_[j])
                    if {'old_weight', 'new_weight', 'value_entry'} <= set(term):
                        res = {'nid': e[1], 'key': pos.get('key_hash'), 'entry': pos.get('value_entry'), 'old': pos.get('old_weight'), 'new': pos.get('new_weight'), 'consumer': nid,
                               'key_t': term.get('key_hash'), 'entry_t': term['value_entry'], 'old_t': term['old_weight'], 'new_t': term['new_weight']}
                if res:
                    break
            if res:
                break
    ctx.cache['upsert_role'] = res
    return res


def validation_role(ctx):
    """The function the builders call with (time_to_live, time_to_idle) before constructing: found through the call sites."""
    if 'validation_role' in ctx.cache:
        return ctx.cache['validation_role']
    prog = ctx.prog
    found = set()
    for nid, b in prog.bodies.items():
        if not nid.startswith(('sync::builder::', 'unsync::builder::')) or b.kind == 'closure':
            continue
        for bi, t in b.calls():
            tg, ext, _ = prog.call_targets(b, t)
            if len(tg) != 1 or len(t['args']) != 2:
                continue
            from .kernel import place_fields, op_place
            names = []
            for a in t['args']:
                cur = a
                nm = None
                for _ in range(6):
                    pl = op_place(cur)
                    if pl is None:
                        break
                    fs = [f[1] for f in place_fields(pl)]
                    if fs:
                        nm = fs[-1]
                        break
                    ds = b.defs().get(pl['l'], [])
                    if len(ds) == 1 and ds[0][0] == 'assign' and ds[0][3]['rv']['rv'] in ('use', 'cast'):
                        cur = ds[0][3]['rv']['op']
                    else:
                        break
                names.append(nm)
            if names == ['time_to_live', 'time_to_idle'] and prog.bodies[tg[0]].locals[0]['ty']['s'] == '()':
                found.add(tg[0])
    ctx.cache['validation_role'] = sorted(found)
    return ctx.cache['validation_role']


# ------------------------------------------------------------------------------------------------
# Internal helpers found by what they do; the name they have today is only the fallback.

_FALLBACK = {
    'sync.get_lookup': 'sync::base_cache::BaseCache::get_with_hash',
    'sync.contains_lookup': 'sync::base_cache::BaseCache::contains_key',
    'sync.do_insert': 'sync::base_cache::BaseCache::do_insert_with_hash',
    'sync.upsert': 'sync::base_cache::Inner::handle_upsert',
    'sync.admit': 'sync::base_cache::Inner::admit',
    'unsync.admit': 'unsync::cache::Cache::admit',
    'unsync.insert_handler': 'unsync::cache::Cache::handle_insert',
    'unsync.update_handler': 'unsync::cache::Cache::handle_update',
    'unsync.evict_lru': 'unsync::cache::Cache::evict_lru_entries',
    'sync.evict_lru': 'sync::base_cache::Inner::evict_lru_entries',
    'unsync.evict_expired': 'unsync::cache::Cache::evict_expired',
    'sync.evict_expired': 'sync::base_cache::Inner::evict_expired',
    'unsync.weights_to_evict': 'unsync::cache::Cache::weights_to_evict',
    'sync.weights_to_evict': 'sync::base_cache::Inner::weights_to_evict',
    'unsync.has_capacity': 'unsync::cache::Cache::has_enough_capacity',
    'sync.has_capacity': 'sync::base_cache::Inner::has_enough_capacity',
    'unsync.scan_wo': 'unsync::cache::Cache::remove_expired_wo',
    'unsync.scan_ao': 'unsync::cache::Cache::remove_expired_ao',
    'sync.scan_wo': 'sync::base_cache::Inner::remove_expired_wo',
    'sync.scan_ao': 'sync::base_cache::Inner::remove_expired_ao',
}


def _derive(ctx, key):
    prog, eff = ctx.prog, ctx.eff
    R = get_roles(ctx)
    kind, what = key.split('.')
    pre = kind + '::'
    # (an extension trait implemented in the cache's module -- `impl CapacityExt for Option<u64>` -- has an impl path that names the module)
    fns = [n for n, b in prog.bodies.items() if (n.startswith(pre) or (' as ' + pre) in n) and b.kind != 'closure']

    def root_ext(n):
        s = set(R.ext_calls.get(n, ()))
        for c in prog.closures_of.get(n, []):
            s |= R.ext_calls.get(c, set())
        return s

    def reaches_ext(n, name):
        return any(name in R.ext_calls.get(x, ()) for x in prog.reachable_from([n]))
    if what == 'upsert':
        ur = upsert_role(ctx)
        return [ur['nid']] if ur else []
    if what == 'admit':
        nexts = {n for n in prog.bodies if ('read', DEQNODE, 'next') in eff.direct.get(n, ()) and n.startswith('common::deque::DeqNode')}
        freq = {n for n in prog.bodies if n.startswith('common::frequency_sketch::') and ('read', SKETCH, 'table') in eff.direct.get(n, ()) and n not in R.sketch_write}
        return [n for n in fns if prog.bodies[n].loops() and (prog.callees(n) & nexts) and (prog.reachable_from([n]) & freq)]
    if what == 'insert_handler':
        adm = set(named_all(ctx, 'unsync.admit'))
        return [n for n in prog.callees('unsync::cache::Cache::insert') if n in fns and (prog.callees(n) & adm)]
    if what == 'update_handler':
        out = []
        for n in prog.callees('unsync::cache::Cache::insert'):
            if n in fns:
                b = prog.bodies[n]
                if any('ValueEntry' in l['ty']['s'] and not l['ty']['s'].startswith('&') for l in b.locals[1:b.argc + 1]) and not (prog.reachable_from([n]) & R.push):
                    out.append(n)
        return out
    if what in ('scan_wo', 'scan_ao'):
        rm = HASHMAP_REMOVE - {'std::collections::HashMap::clear'} if kind == 'unsync' else DASHMAP_REMOVE
        tr = 'unsync::AccessTime::' if kind == 'unsync' else 'common::concurrent::AccessTime::'
        want, other = ('last_modified', 'last_accessed') if what == 'scan_wo' else ('last_accessed', 'last_modified')
        out = []
        for n in fns:
            b = prog.bodies[n]
            if not b.loops() or b.is_pub:
                continue
            reach = prog.reachable_from([n])
            calls = set()
            for x in reach:
                for bi, t in prog.bodies[x].calls():
                    c = norm(t.get('callee') or '')
                    if c.startswith(tr):
                        calls.add(c[len(tr):])
            has_rm = any(R.ext_calls.get(x, set()) & rm for x in [n] + prog.closures_of.get(n, []))
            if has_rm and want in calls and other not in calls and reaches_ext(n, 'std::time::Instant::checked_add'):
                out.append(n)
        return out
    if what in ('evict_lru', 'evict_expired'):
        rm = HASHMAP_REMOVE - {'std::collections::HashMap::clear'} if kind == 'unsync' else DASHMAP_REMOVE
        ur = upsert_role(ctx) if kind == 'sync' else None
        loops_rm = []
        for n in fns:
            b = prog.bodies[n]
            if not b.loops() or (ur and ur['nid'] == n) or b.is_pub:
                continue
            in_loop = False
            for h, body, _ in b.loops():
                for bi in body:
                    t = b.blocks[bi]['term']
                    if t['t'] == 'call' and prog.call_targets(b, t)[1] in rm:
                        in_loop = True
            if in_loop:
                loops_rm.append(n)
        expiry_loops = [n for n in loops_rm if reaches_ext(n, 'std::time::Instant::checked_add')]
        if what == 'evict_lru':
            return [n for n in loops_rm if n not in expiry_loops and not (prog.reachable_from([n]) & R.push)]
        callers = []
        for n in fns:
            if n in loops_rm or prog.bodies[n].is_pub:
                continue
            cs = prog.callees(n)
            for c in list(cs):
                if c in prog.bodies and prog.bodies[c].kind == 'closure':
                    cs = cs | prog.callees(c)
            if cs & set(expiry_loops) and not (R.ext_calls[n] & rm):
                # the step that dispatches the scans (not a wrapper around it)
                if len(cs & set(expiry_loops)) >= 1 and not any(n in prog.callees(m2) for m2 in fns if m2 != n and (prog.callees(m2) & set(expiry_loops))):
                    callers.append(n)
        return callers
    if what in ('weights_to_evict', 'has_capacity'):
        out = []
        adts = ('unsync::cache::Cache', 'sync::base_cache::Inner')
        for n in fns:
            b = prog.bodies[n]
            rt = b.locals[0]['ty']['s']
            if rt != ('u64' if what == 'weights_to_evict' else 'bool') or len(b.blocks) > 25 or b.loops():
                continue
            reads = set()
            for x in [n] + prog.closures_of.get(n, []):
                reads |= {e[2] for e in eff.direct.get(x, ()) if e[0] == 'read'}
            # the capacity is read from the cache state, or handed in by the caller (checked at the call sites by the rules using the role)
            cap_param = any(l['ty']['s'].lstrip('&') == 'std::option::Option<u64>' for l in b.locals[1:b.argc + 1])
            if 'max_capacity' not in reads and not cap_param:
                continue
            size_param = any(l['ty']['s'] == 'u64' for l in b.locals[1:b.argc + 1])
            if what == 'weights_to_evict' and 'weighted_size' not in reads and not (cap_param and size_param):
                continue
            if what == 'has_capacity' and cap_param and 'max_capacity' not in reads:
                # among the predicates over a capacity argument the fits-predicate is the one that adds the candidate to the size
                adds = any(s_['st'] == 'assign' and s_['rv']['rv'] == 'binop' and str(s_['rv']['op']).startswith('Add')
                           for x in [n] + prog.closures_of.get(n, []) for _bi, _si, s_ in prog.bodies[x].stmts())
                if not adds:
                    continue
            if what == 'weights_to_evict':
                if any(str(e).endswith('saturating_sub') for x in [n] + prog.closures_of.get(n, []) for e in R.ext_calls.get(x, ())):
                    out.append(n)
            else:
                if 'frequency_sketch_enabled' not in reads:
                    out.append(n)
        return out
    if key == 'sync.do_insert':
        direct = {prog.bodies[n].root or n for n in prog.bodies if n.startswith('sync::') and 'dashmap::DashMap::entry' in R.ext_calls.get(n, ())}
        # the slot access may sit behind an accessor of the store (`Inner::entry(key)`): the role is the function that fills the slot and makes the write op
        makers = {prog.bodies[n].root or n for n in eff.who_has(('construct', 'common::concurrent::WriteOp', 'Upsert'))}
        c = sorted(n for n in makers if n in direct or reaches_ext(n, 'dashmap::DashMap::entry'))
        if len(c) == 1:
            return c
        return sorted(direct)
    if key == 'sync.get_lookup':
        makers = {prog.bodies[n].root or n for n in eff.who_has(('construct', 'common::concurrent::ReadOp', 'Hit'))}
        pub = 'sync::cache::Cache::get'
        if pub in prog.bodies:
            # the outermost function below the public wrapper that looks the key up and (itself or through a recording helper) makes the Hit
            reach = prog.reachable_from([pub])
            c = [n for n in reach if n in fns and n != pub and reaches_ext(n, 'dashmap::DashMap::get') and (n in makers or (prog.reachable_from([n]) & makers))]
            c = [n for n in c if not any(n in prog.reachable_from([m2]) and m2 != n for m2 in c)]
            if len(c) == 1:
                return c
        return sorted(makers)
    if key == 'sync.contains_lookup':
        pub = 'sync::cache::Cache::contains_key'
        if pub not in prog.bodies:
            return []
        reach = prog.reachable_from([pub])
        c = [n for n in reach if n in fns and reaches_ext(n, 'dashmap::DashMap::get') and reaches_ext(n, 'std::time::Instant::checked_add') and n != pub]
        # the outermost such function below the public wrapper
        return [n for n in c if not any(n in prog.reachable_from([m2]) and m2 != n for m2 in c)]
    return []


def named_all(ctx, key):
    ck = ('named', key)
    if ck not in ctx.cache:
        try:
            ctx.cache[ck] = sorted(set(_derive(ctx, key)))
        except Exception:
            ctx.cache[ck] = []
    return ctx.cache[ck]


def named(ctx, key):
    """Body id of the function that plays role `key` today: derived from behaviour when exactly one function qualifies, else
    the historical name (and if that does not exist either, the caller fails closed with `anchor missing`)."""
    c = named_all(ctx, key)
    if len(c) == 1:
        return c[0]
    return _FALLBACK[key]
