"""Derived roles: internal helpers are never named by the rules; their role is recognised from what
they do (effects on anchored state fields, external primitives they call)."""
from .core import CheckFailure
from .kernel import norm

DEQUE = 'common::deque::Deque'
DEQNODE = 'common::deque::DeqNode'
SKETCH = 'common::frequency_sketch::FrequencySketch'

HASHMAP_MUT = {'std::collections::HashMap::insert', 'std::collections::HashMap::remove', 'std::collections::HashMap::clear',
               'std::collections::HashMap::remove_entry', 'std::collections::HashMap::retain', 'std::collections::HashMap::drain',
               'std::collections::HashMap::entry', 'std::collections::HashMap::get_mut', 'std::collections::HashMap::extract_if'}
HASHMAP_REMOVE = {'std::collections::HashMap::remove', 'std::collections::HashMap::remove_entry', 'std::collections::HashMap::retain',
                  'std::collections::HashMap::drain', 'std::collections::HashMap::clear', 'std::collections::HashMap::extract_if'}
HASHMAP_INSERT = {'std::collections::HashMap::insert', 'std::collections::HashMap::entry'}
DASHMAP_REMOVE = {'dashmap::DashMap::remove', 'dashmap::DashMap::remove_if', 'dashmap::DashMap::remove_if_mut', 'dashmap::DashMap::clear',
                  'dashmap::DashMap::retain', 'dashmap::mapref::entry::OccupiedEntry::remove',
                  'dashmap::mapref::entry::OccupiedEntry::remove_entry'}
DASHMAP_INSERT = {'dashmap::DashMap::entry', 'dashmap::DashMap::insert', 'dashmap::mapref::entry::Entry::or_insert_with',
                  'dashmap::mapref::entry::Entry::or_insert', 'dashmap::mapref::entry::Entry::insert',
                  'dashmap::mapref::entry::VacantEntry::insert', 'dashmap::mapref::entry::Entry::or_default',
                  'dashmap::mapref::entry::Entry::or_try_insert_with', 'dashmap::mapref::entry::Entry::insert_entry'}
DASHMAP_MUT = DASHMAP_REMOVE | DASHMAP_INSERT | {'dashmap::DashMap::alter', 'dashmap::DashMap::alter_all', 'dashmap::DashMap::get_mut',
                                                  'dashmap::mapref::entry::Entry::and_modify', 'dashmap::DashMap::iter_mut',
                                                  'dashmap::DashMap::shrink_to_fit'}
CLOCK_READS = {'std::time::Instant::now'}
CHAN_SEND = {'crossbeam_channel::Sender::try_send', 'crossbeam_channel::Sender::send', 'crossbeam_channel::Sender::send_timeout'}


class Roles:
    def __init__(self, ctx):
        self.ctx = ctx
        prog, eff = ctx.prog, ctx.eff
        ctx.adt_field(DEQUE, 'len'); ctx.adt_field(DEQUE, 'tail'); ctx.adt_field(DEQUE, 'head')
        ctx.adt_field(SKETCH, 'table')
        self.ext_calls = {}   # nid -> set(ext callee)
        for nid, b in prog.bodies.items():
            s = set()
            for bi, t in b.calls():
                _, ext, _ = prog.call_targets(b, t)
                if ext:
                    s.add(ext)
            self.ext_calls[nid] = s
        d = eff.direct
        W = lambda nid, adt, f: ('write', adt, f) in d.get(nid, ())
        self.push = {n for n in prog.bodies if W(n, DEQUE, 'len') and 'std::boxed::Box::into_raw' in self.ext_calls[n]}
        self.unlink = {n for n in prog.bodies if W(n, DEQUE, 'len') and n not in self.push}
        self.free = {n for n in prog.bodies if 'std::boxed::Box::from_raw' in self.ext_calls[n]}
        self.move = {n for n in prog.bodies if (W(n, DEQUE, 'tail') or W(n, DEQUE, 'head')) and not W(n, DEQUE, 'len')
                     and not n.endswith('::new') and prog.bodies[n].impl_trait != 'std::default::Default'}
        self.sketch_write = {n for n in prog.bodies if any(e[0] == 'write' and e[1] == SKETCH for e in d.get(n, ()))
                             and prog.bodies[n].impl_trait != 'std::default::Default'}
        # increment role: writes table and size; ensure_capacity writes table/table_mask/sample_size
        self.sketch_increment = {n for n in self.sketch_write if W(n, SKETCH, 'size') and not W(n, SKETCH, 'table_mask')}
        self.maintenance = set(prog.trait_impls.get('common::concurrent::housekeeper::InnerSync::sync', []))
        self.try_sync = {n for n in prog.bodies if any(
            e[0] == 'write' and e[1] == 'common::concurrent::housekeeper::Housekeeper' and e[2] == 'is_sync_running' for e in d.get(n, ()))}
        if not self.push or not self.unlink or not self.move or not self.free:
            raise CheckFailure('role derivation failed: deque roles push=%s unlink=%s move=%s free=%s' % (
                sorted(self.push), sorted(self.unlink), sorted(self.move), sorted(self.free)))
        if not self.sketch_increment:
            raise CheckFailure('role derivation failed: no sketch increment role')

    def reaches(self, src, targets):
        """First call path from src to any function in `targets` (or None)."""
        if not targets:
            return None
        return self.ctx.prog.call_path(src, lambda x: x in targets)

    def ext_sites(self, names, within=None):
        """[(nid, ext, line)] for every call of an external function in `names`."""
        out = []
        prog = self.ctx.prog
        for nid, b in prog.bodies.items():
            if within is not None and nid not in within:
                continue
            if not (self.ext_calls[nid] & set(names)):
                continue
            for bi, t in b.calls():
                _, ext, _ = prog.call_targets(b, t)
                if ext in names:
                    out.append((nid, ext, t.get('line'), bi))
        return out


def get_roles(ctx):
    if 'roles' not in ctx.cache:
        ctx.cache['roles'] = Roles(ctx)
    return ctx.cache['roles']
