"""Which rules decide which property (see DESIGN.md section 5)."""
from . import rules_conc as conc
from . import rules_effects as fx
from . import rules_live as live
from . import rules_flow as flow
from . import rules_stale as stale
from . import rules_must as must
from . import rules_config as cfg
from . import rules_admit as adm
from . import rules_safety as safe
from . import rules_type as ty

PROPERTIES = {
    'C08': {
        'rules': [safe.rule_inv_arith, safe.rule_inv_panic, safe.rule_inv_unsafe, safe.rule_ptr_guarded_call, safe.rule_auth_node_free, safe.rule_deque_shape, safe.rule_deque_links,
                  stale.rule_stale_removal, stale.rule_admit_live, must.rule_wo_node, must.rule_unlink_both, fx.rule_sketch_structure, adm.rule_cmp_evict, flow.rule_flow_sync, ty.rule_type_witnesses, adm.rule_must_recency],
        'explanation': 'Discipline, not absence of every bad state: complete inventories of arithmetic asserts, panic-capable calls and unsafe code, each '
                       'discharged automatically or by one reasoned table line; unsafe impl bounds; every unsafe list operation is membership-'
                       'guarded; nodes are freed only by their owner roles, never popped in the concurrent cache; maintenance removes by identity '
                       'only and never creates ghost nodes; local shape invariants of the list operations and the inductive step of list well-formedness '
                       '(every path of push / unlink / pop / move-to-back leaves exactly the links of a well-formed list); type-level witnesses with error codes.',
        'decides': 'no unreviewed overflow / panic / unsafe site; list operations guarded; frees only through owner roles; identity-guarded removal; '
                   'type-level exclusion of data races and aliasing',
        'does_not_decide': 'that the inductive hypotheses of DEQUE-links (list well formed before the call, node argument a member of THIS list) hold at every call site beyond what PTR-guarded-call / AUTH-node-free establish; anything a sanitizer would see at run time; '
                           'table lines of class ASSUMPTION are listed, not proved',
    },
    'C13': {
        'rules': [adm.rule_cmp_admit, adm.rule_flow_admit_sums, adm.rule_admission_outcomes, fx.rule_auth_sketch_record, fx.rule_sketch_structure],
        'explanation': 'Path-sensitive summaries of both admission scans and both insert handlers: the decision is exactly '
                       '(candidate.weight <= victims.weight) AND (victims.freq < candidate.freq) on the final aggregates; the aggregates are '
                       'the + sums over exactly the scanned victims found in the map, each from its own node hash / weight; rejected and '
                       'oversize candidates leave every resident untouched; only gets feed the sketch.',
        'decides': 'the admission predicate, what is summed into it, and that rejection touches no resident',
        'does_not_decide': 'the estimates themselves (C14 numerics), the deque order (C12)',
    },
    'C12': {
        'rules': [adm.rule_must_recency, fx.rule_pair_readop_once, adm.rule_cmp_admit, adm.rule_cmp_evict, adm.rule_flow_admit_sums, flow.rule_flow_sync, live.rule_lookup_surface, safe.rule_deque_links],
        'explanation': 'Recency bookkeeping is invoked on every use (get hit, update, admission push-back); victim selection starts at the '
                       'front of probation and advances by next only; the scan and the eviction loops stop as early as allowed '
                       '(victims.weight < candidate.weight, evicted >= weights_to_evict) and remove what peek_front returned.',
        'decides': 'every use refreshes recency; selection consumes the list from its LRU end and stops as early as allowed',
        'does_not_decide': 'the order for whole operation sequences (DEQUE-links decides one step: push and move-to-back put the node at the back, unlink / pop join the neighbours); order among skipped / stale nodes in sync',
    },
    'C04': {
        'rules': [adm.rule_admission_outcomes, adm.rule_flow_admit_sums, adm.rule_cmp_evict, cfg.rule_store_capacity, cfg.rule_weigh_exact, conc.rule_const_logsizes, conc.rule_loop_retry, flow.rule_flow_unsync, flow.rule_flow_sync, stale.rule_must_drain, stale.rule_explicit_sync, must.rule_must_expire],
        'explanation': 'Structural half of the bound: a candidate that does not fit is admitted only with its victims removed or is itself '
                       'removed; oversize candidates are undone; over-capacity is evicted at every unsync operation and every maintenance '
                       'run with the exact exit test; counters are adjusted on every path (FLOW); the queue of un-applied writes is bounded '
                       'and never dropped.',
        'decides': 'every admission evicts or is undone, oversize inserts are undone, over-capacity is evicted at each op / maintenance run, '
                   'un-applied writes are bounded by a bounded, never-dropping queue',
        'does_not_decide': 'the numeric bound itself (run-time weights), the +1 per inserting thread term',
    },
    'C17': {
        'rules': [cfg.rule_flow_config_names, cfg.rule_build_validate, cfg.rule_default_consts, cfg.rule_initcap_sink, cfg.rule_store_config, ty.rule_type_policy],
        'explanation': 'Every configuration wire is followed by name through the type-checked program: builder setters change exactly their '
                       'own field; build* validate (ttl, tti) before constructing; each argument / struct field / getter named X receives the '
                       'value named X; the panic condition is exactly `d <= Duration::from_secs(1000*365*24*3600)` false; defaults are the '
                       'documented constants (weight 1, unbounded => predicate true / evict 0); initial_capacity reaches only the map '
                       'constructor and no branch.',
        'decides': 'no crossed or dropped configuration wire, exact panic condition, documented defaults, initial_capacity unobservable',
        'does_not_decide': 'behavioural equivalence of configurations as a whole',
    },
    'C11': {
        'rules': [must.rule_unlink_both, safe.rule_auth_node_free, flow.rule_flow_sync, stale.rule_admit_live, stale.rule_stale_removal, stale.rule_must_drain, stale.rule_explicit_sync, must.rule_must_invalidate, must.rule_must_expire, must.rule_scan_stops_with_cause, safe.rule_deque_shape, safe.rule_deque_links],
        'explanation': 'Exactly-once is Rust ownership everywhere except the raw-pointer list, so the check is about that boundary: every '
                       'removal from the map unlinks and frees both deque nodes of the entry, maintenance never creates a node for an entry '
                       'that already left the map, and never removes by key alone.',
        'decides': 'no removal path leaves a node (key clone, EntryInfo) behind; no ghost node is created',
        'does_not_decide': 'live-object counts at quiescent points, release timing relative to the clock',
    },
    'C10': {
        'rules': [flow.rule_flow_unsync, flow.rule_flow_admit_sums_unsync, adm.rule_flow_admit_sums, flow.rule_flow_sync, stale.rule_admit_live, stale.rule_stale_removal, cfg.rule_store_weigher, cfg.rule_weigh_exact, must.rule_scan_stops_with_cause, must.rule_must_expire],
        'explanation': 'Per-path traces of every function that adds / removes / replaces a map entry: the final value written to each '
                       'counter is decomposed into a signed sum and must contain the removed entry\'s stored weight with sign - (and 1 with -), '
                       'the admitted candidate\'s weight with + (and 1), -old +new for updates, 0 after clear; accumulators are checked '
                       'component-wise at their callers; sync: the op-carried weights are used, every removed entry reaches the remove '
                       'role, counters are published only by the maintenance run.',
        'decides': 'every path that adds/removes a map entry adjusts both counters by that entry\'s weight with the right sign and origin',
        'does_not_decide': 'the numeric equality itself (saturation, weigher determinism), quiescent multi-thread states',
    },
    'C01': {
        'rules': [live.rule_guard_live_all, must.rule_must_invalidate, must.rule_must_insert, must.rule_auth_value, must.rule_impl_accessors, stale.rule_auth_ts_writers, must.rule_update_resets, live.rule_lookup_surface],
        'explanation': 'Path-sensitive abstract interpretation of the 6 lookups (get / contains_key / Iter::next of both caches): on '
                       'every path that returns a hit, the entry that is returned was checked against ttl, tti and (sync) the '
                       'invalidate_all watermark with the exact comparison operators and operand roles.',
        'decides': 'every lookup path re-checks full liveness on the entry it returns',
        'does_not_decide': 'HashMap/DashMap lookup correctness; that the latest insert wins under concurrency (C02)',
    },
    'C05': {
        'rules': [live.rule_guard_live_ttl, cfg.rule_store_ttl, must.rule_update_resets_ttl, must.rule_wo_node, cfg.rule_flow_config_names, cfg.rule_build_validate, stale.rule_auth_ts_writers, must.rule_impl_accessors, live.rule_lookup_surface],
        'explanation': 'Every hit path of the 6 lookups establishes last_modified + time_to_live <= now == false (inclusive boundary) '
                       'on the returned entry with `now` read from the clock in the same call.',
        'decides': 'the inclusive ttl boundary test is applied by every lookup to the returned entry',
        'does_not_decide': 'clock monotonicity; DashMap guard atomicity between an update and a concurrent read',
    },
    'C06': {
        'rules': [live.rule_guard_live_tti, cfg.rule_store_tti, fx.rule_pure_observers_ts, must.rule_update_resets_tti, cfg.rule_flow_config_names, stale.rule_auth_ts_writers, adm.rule_must_recency, must.rule_impl_accessors, live.rule_lookup_surface],
        'explanation': 'Every hit path of the 6 lookups establishes last_accessed + time_to_idle <= now == false (inclusive) on the '
                       'returned entry; contains_key / iteration have no write effect on any timestamp store.',
        'decides': 'the inclusive tti boundary test is applied by every lookup; observers cannot extend the idle deadline',
        'does_not_decide': 'clock monotonicity; concurrent visibility',
    },
    'C07': {
        'rules': [live.rule_guard_live_va, must.rule_must_invalidate, must.rule_auth_value, stale.rule_stale_ts, must.rule_unlink_both, flow.rule_flow_unsync, stale.rule_auth_ts_writers, must.rule_update_resets, live.rule_lookup_surface],
        'explanation': 'Every hit path of the 3 sync lookups establishes ts < valid_after == false (strict) for both timestamp stores of '
                       'the returned entry.',
        'decides': 'the watermark comparison is strict and applied by every sync lookup',
        'does_not_decide': 'per-schedule visibility between an invalidating thread and readers',
    },
    'C16': {
        'rules': [live.rule_guard_live_all, must.rule_update_resets, live.rule_miss_reasons, stale.rule_stale_removal, flow.rule_flow_sync, must.rule_must_insert, ty.rule_type_iter, live.rule_lookup_surface, must.rule_must_invalidate],
        'explanation': 'Both Iter::next implementations yield an item only on paths where the full liveness predicate of that very '
                       'item is false.',
        'decides': 'iteration never yields an expired / invalidated entry; the filter is exactly the liveness predicate',
        'does_not_decide': "DashMap's iteration guarantees under concurrent writers",
    },
    'C03': {
        'rules': [live.rule_miss_reasons, adm.rule_admission_outcomes, must.rule_must_insert, must.rule_update_resets, flow.rule_flow_unsync, flow.rule_flow_admit_sums_unsync, flow.rule_flow_sync,
                  stale.rule_stale_ts, stale.rule_stale_removal, stale.rule_admit_live, adm.rule_must_recency, adm.rule_cmp_evict, must.rule_scan_stops_with_cause, must.rule_must_expire],
        'explanation': 'Every miss path of the 6 lookups is explained by key-absent / iterator-exhausted or a true expiry / watermark '
                       'comparison on that entry.',
        'decides': 'lookups hide an existing entry only for expiry or invalidation',
        'does_not_decide': 'map correctness; quiescent behaviour after real multi-thread runs',
    },
    'C15': {
        'rules': [fx.rule_pure_observers, live.rule_lookup_surface],
        'explanation': 'May-effect analysis over the whole call graph from every observer entry point (contains_key, iter, '
                       'Iter::next, EntryRef accessors, policy / counter getters, Debug) of both caches: none of them can reach a '
                       'sketch write, a timestamp / flag / watermark write, a recency update (move-to-back / push role), a queue send, '
                       'a ReadOp/WriteOp construction, (sync) a map mutation or maintenance; unsync contains_key may remove map '
                       'entries only on paths where the expiry predicate holds. May-effects over-approximate every execution, so '
                       'silence holds for all histories and configurations.',
        'decides': 'observers cannot change popularity, recency, timestamps, flags, queues or trigger maintenance; unsync contains_key '
                   'removals have cause expiry',
        'does_not_decide': 'effects of user callbacks (Hash/Eq/Clone/Debug); HashMap/DashMap internals',
    },
    'C14': {
        'rules': [fx.rule_auth_sketch_record, fx.rule_pair_readop_once, fx.rule_const_masks, fx.rule_sketch_structure, adm.rule_must_recency, live.rule_lookup_surface],
        'explanation': 'Decides the clause "only get calls are recorded, each exactly once" plus structural necessary conditions of the '
                       'numeric clauses: who can reach the sketch increment role, where ReadOps are constructed and consumed, one record per '
                       'path through get, RESET/ONE/nibble masks and the 128 clamp, aging visits the whole table and halves every slot, '
                       'the table is reallocated (zeroed) only on growth and only before the estimator is enabled.',
        'decides': 'only get (hit or miss) feeds the popularity sketch, exactly once per call; mask constants are the ones halving / '
                   'saturation need; aging halves every slot; counts are wiped only by growth before enabling',
        'does_not_decide': 'the count-min numerics: lower bound c, exact halving for all table states, collision behaviour (run-time values)',
    },
    'C09': {
        'rules': [conc.rule_lock_order, conc.rule_pair_sync_flag, conc.rule_auth_nonblocking, conc.rule_loops,
                  conc.rule_loop_retry, conc.rule_const_logsizes, conc.rule_housekeeper_lifetime, stale.rule_must_drain, conc.rule_flush_trigger],
        'explanation': 'Deadlock/livelock freedom argued structurally for all schedules: lock-order graph acyclic '
                       '(incl. DashMap shard locks and closures run under them), no blocking primitive, the maintenance '
                       'try-lock flag is released on every normal path, every loop is bounded or makes progress by running '
                       'maintenance, queue constants consistent.',
        'decides': 'no lock cycle, no blocking channel op, flag always reset, only the write-retry loop is unbounded and it '
                   'performs maintenance itself every iteration, all maintenance loops bounded',
        'does_not_decide': 'fairness / starvation bounds, wall-clock latency, unwind paths, semantics of std/dashmap/crossbeam primitives',
        'assumptions': ['Mutex/RwLock are not re-entrant; closures passed to DashMap entry/remove_if APIs run under the shard lock',
                        'user callbacks (Hash, Eq, Clone, Drop, weigher) do not call back into the cache'],
    },
}

LEVEL_TEXT = ('Static analysis of the type-checked program (MIR): a verdict on structural clauses that are necessary for the '
              'property and visible in the shape of the code on every path; holds for all inputs/histories/schedules that '
              'can drive those paths, but is not a proof of the behavioural statement as a whole.')

_PENDING = 'rule set for this property is not built yet in this revision (see DESIGN.md section 5 for the planned clauses)'
NOT_APPLICABLE = {
    'C02': 'quantifies over thread schedules and asks for a linearizability-style relation between completed writes and '
           'later reads; rests on DashMap shard-lock atomicity which no lint over this crate can establish; its structural '
           'premises are decided under C01/C09 (DESIGN.md section 6)',
    'C01': _PENDING, 'C03': _PENDING, 'C04': _PENDING, 'C05': _PENDING, 'C06': _PENDING, 'C07': _PENDING, 'C08': _PENDING,
    'C10': _PENDING, 'C11': _PENDING, 'C12': _PENDING, 'C13': _PENDING, 'C14': _PENDING, 'C15': _PENDING, 'C16': _PENDING,
    'C17': _PENDING,
}
