//! Minimal JSON value + serializer (the driver has no crate dependencies).
pub enum J {
    S(String),
    N(i128),
    B(bool),
    A(Vec<J>),
    O(Vec<(&'static str, J)>),
}

impl J {
    pub fn s(s: String) -> J {
        J::S(s)
    }
    pub fn n(n: i128) -> J {
        J::N(n)
    }
    pub fn b(b: bool) -> J {
        J::B(b)
    }
    pub fn arr(v: Vec<J>) -> J {
        J::A(v)
    }
    pub fn obj(v: Vec<(&'static str, J)>) -> J {
        J::O(v)
    }
    fn write(&self, out: &mut String) {
        match self {
            J::S(s) => esc(s, out),
            J::N(n) => out.push_str(&n.to_string()),
            J::B(b) => out.push_str(if *b { "true" } else { "false" }),
            J::A(v) => {
                out.push('[');
                for (i, x) in v.iter().enumerate() {
                    if i > 0 {
                        out.push(',');
                    }
                    x.write(out);
                }
                out.push(']');
            }
            J::O(v) => {
                out.push('{');
                for (i, (k, x)) in v.iter().enumerate() {
                    if i > 0 {
                        out.push(',');
                    }
                    esc(k, out);
                    out.push(':');
                    x.write(out);
                }
                out.push('}');
            }
        }
    }
    pub fn to_string(&self) -> String {
        let mut s = String::new();
        self.write(&mut s);
        s
    }
}

fn esc(s: &str, out: &mut String) {
    out.push('"');
    for c in s.chars() {
        match c {
            '"' => out.push_str("\\\""),
            '\\' => out.push_str("\\\\"),
            '\n' => out.push_str("\\n"),
            '\r' => out.push_str("\\r"),
            '\t' => out.push_str("\\t"),
            c if (c as u32) < 0x20 => out.push_str(&format!("\\u{:04x}", c as u32)),
            c => out.push(c),
        }
    }
    out.push('"');
}
