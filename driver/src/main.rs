//! Fact extractor: dumps the type-checked program (MIR after drop elaboration, resolved
//! callees, ADTs, impls, constants, unsafe blocks) of the crates named in VERIF_CRATES as one
//! JSON file per crate under $VERIF_FACTS_DIR. Used as RUSTC_WORKSPACE_WRAPPER.
#![feature(rustc_private)]

extern crate rustc_abi;
extern crate rustc_driver;
extern crate rustc_hir;
extern crate rustc_interface;
extern crate rustc_middle;
extern crate rustc_span;

use rustc_hir::def::DefKind;
use rustc_hir::def_id::{DefId, LOCAL_CRATE};
use rustc_middle::mir::{
    self, AggregateKind, AssertKind, BasicBlockData, Body, Const, Operand, Place, PlaceElem,
    Rvalue, StatementKind, TerminatorKind,
};
use rustc_middle::ty::{self, print::with_no_trimmed_paths, Ty, TyCtxt};
use std::fmt::Write as _;

mod json;
use json::J;

struct Cb;

impl rustc_driver::Callbacks for Cb {
    fn after_analysis<'tcx>(
        &mut self,
        _c: &rustc_interface::interface::Compiler,
        tcx: TyCtxt<'tcx>,
    ) -> rustc_driver::Compilation {
        let krate = tcx.crate_name(LOCAL_CRATE).to_string();
        let wanted = std::env::var("VERIF_CRATES").unwrap_or_else(|_| "mini_moka".into());
        if wanted.split(',').any(|w| w == krate) {
            let out = with_no_trimmed_paths!(dump(tcx, &krate));
            let dir = std::env::var("VERIF_FACTS_DIR").expect("VERIF_FACTS_DIR");
            let path = format!("{}/{}.json", dir, krate);
            std::fs::write(&path, out).expect("write facts");
        }
        rustc_driver::Compilation::Continue
    }
}

fn main() {
    let mut args: Vec<String> = std::env::args().collect();
    // RUSTC_WORKSPACE_WRAPPER passes the real rustc path as argv[1].
    if args.len() > 1 && (args[1].ends_with("rustc") || args[1].contains("/rustc")) {
        args.remove(1);
    }
    rustc_driver::run_compiler(&args, &mut Cb);
}

fn dp(tcx: TyCtxt<'_>, d: DefId) -> String {
    tcx.def_path_str(d)
}

fn span_j(tcx: TyCtxt<'_>, sp: rustc_span::Span) -> J {
    let sm = tcx.sess.source_map();
    let lo = sm.lookup_char_pos(sp.lo());
    let hi = sm.lookup_char_pos(sp.hi());
    let file = match &lo.file.name {
        rustc_span::FileName::Real(r) => r
            .local_path()
            .map(|p| p.to_string_lossy().to_string())
            .unwrap_or_else(|| format!("{:?}", r)),
        other => format!("{:?}", other),
    };
    J::obj(vec![
        ("file", J::s(file)),
        ("lo", J::n(lo.line as i128)),
        ("hi", J::n(hi.line as i128)),
        ("exp", J::b(sp.from_expansion())),
    ])
}

/// Type description: printed form + head ADT (peeling refs / raw pointers) + its generic args.
fn ty_j<'tcx>(tcx: TyCtxt<'tcx>, t: Ty<'tcx>) -> J {
    let mut cur = t;
    let mut refs = 0;
    loop {
        match cur.kind() {
            ty::Ref(_, inner, _) => {
                cur = *inner;
                refs += 1;
            }
            ty::RawPtr(inner, _) => {
                cur = *inner;
                refs += 1;
            }
            _ => break,
        }
    }
    let mut f = vec![("s", J::s(format!("{}", t)))];
    if refs > 0 {
        f.push(("refs", J::n(refs)));
    }
    match cur.kind() {
        ty::Adt(def, args) => {
            f.push(("adt", J::s(dp(tcx, def.did()))));
            let a: Vec<J> = args.iter().map(|g| J::s(format!("{}", g))).collect();
            if !a.is_empty() {
                f.push(("args", J::arr(a)));
            }
        }
        ty::Closure(d, _) => f.push(("closure", J::s(dp(tcx, *d)))),
        ty::FnDef(d, _) => f.push(("fndef", J::s(dp(tcx, *d)))),
        ty::Param(p) => f.push(("param", J::s(p.name.to_string()))),
        ty::Dynamic(..) => f.push(("dyn", J::b(true))),
        ty::Tuple(ts) => f.push(("tuple", J::n(ts.len() as i128))),
        _ => {}
    }
    J::obj(f)
}

fn place_j<'tcx>(tcx: TyCtxt<'tcx>, body: &Body<'tcx>, p: &Place<'tcx>) -> J {
    let mut projs = Vec::new();
    let mut pty = mir::PlaceTy::from_ty(body.local_decls[p.local].ty);
    for elem in p.projection.iter() {
        let j = match elem {
            PlaceElem::Deref => J::s("*".into()),
            PlaceElem::Field(idx, _fty) => {
                let mut f = vec![("f", J::n(idx.as_usize() as i128))];
                match pty.ty.kind() {
                    ty::Adt(def, _) => {
                        let vidx = pty.variant_index.unwrap_or(rustc_abi::FIRST_VARIANT);
                        let v = def.variant(vidx);
                        f.push(("adt", J::s(dp(tcx, def.did()))));
                        if def.is_enum() {
                            f.push(("variant", J::s(v.name.to_string())));
                        }
                        f.push(("name", J::s(v.fields[idx].name.to_string())));
                    }
                    ty::Closure(d, _) => {
                        f.push(("closure", J::s(dp(tcx, *d))));
                        if let Some(ld) = d.as_local() {
                            let caps = tcx.closure_captures(ld);
                            if let Some(c) = caps.get(idx.as_usize()) {
                                f.push(("name", J::s(c.to_symbol().to_string())));
                                f.push((
                                    "byref",
                                    J::b(matches!(
                                        c.info.capture_kind,
                                        ty::UpvarCapture::ByRef(_)
                                    )),
                                ));
                            }
                        }
                    }
                    ty::Tuple(_) => f.push(("tuple", J::b(true))),
                    _ => {}
                }
                J::obj(f)
            }
            PlaceElem::Downcast(name, vidx) => J::obj(vec![
                (
                    "downcast",
                    J::s(name.map(|s| s.to_string()).unwrap_or_default()),
                ),
                ("vidx", J::n(vidx.as_usize() as i128)),
            ]),
            PlaceElem::Index(l) => J::obj(vec![("index", J::n(l.as_usize() as i128))]),
            PlaceElem::ConstantIndex { offset, .. } => {
                J::obj(vec![("cindex", J::n(offset as i128))])
            }
            PlaceElem::Subslice { .. } => J::s("subslice".into()),
            PlaceElem::OpaqueCast(_) => J::s("opaque".into()),
            PlaceElem::UnwrapUnsafeBinder(_) => J::s("unwrap_binder".into()),
        };
        projs.push(j);
        pty = pty.projection_ty(tcx, elem);
    }
    let mut f = vec![("l", J::n(p.local.as_usize() as i128))];
    if !projs.is_empty() {
        f.push(("p", J::arr(projs)));
    }
    J::obj(f)
}

fn const_j<'tcx>(tcx: TyCtxt<'tcx>, owner: DefId, c: &mir::ConstOperand<'tcx>) -> J {
    let t = c.const_.ty();
    let mut f = vec![("k", J::s("const".into())), ("ty", ty_j(tcx, t))];
    match t.kind() {
        ty::FnDef(d, args) => {
            f.push(("fn", J::s(dp(tcx, *d))));
            f.push((
                "fnargs",
                J::arr(args.iter().map(|g| J::s(format!("{}", g))).collect()),
            ));
        }
        _ => {
            let env = ty::TypingEnv::post_analysis(tcx, owner);
            if t.is_integral() || t.is_bool() || t.is_char() {
                if let Some(si) = c.const_.try_eval_scalar_int(tcx, env) {
                    let size = si.size();
                    let v: i128 = if t.is_signed() {
                        si.to_int(size)
                    } else {
                        si.to_uint(size) as i128
                    };
                    f.push(("val", J::n(v)));
                }
            }
            match c.const_ {
                Const::Unevaluated(uv, _) => f.push(("item", J::s(dp(tcx, uv.def)))),
                Const::Val(mir::ConstValue::Scalar(rustc_middle::mir::interpret::Scalar::Ptr(ptr, _)), _) => {
                    let aid = ptr.provenance.alloc_id();
                    if let Some(rustc_middle::mir::interpret::GlobalAlloc::Static(sd)) = tcx.try_get_global_alloc(aid) {
                        f.push(("static", J::s(dp(tcx, sd))));
                    }
                }
                _ => {}
            }
            f.push(("text", J::s(format!("{}", c.const_))));
            // a reference to a small constant aggregate (`&Self::MAX`, a promoted): the bytes it points to and the pointee's field layout
            if let ty::Ref(_, inner, _) = t.kind() {
                if let Ok(mir::ConstValue::Scalar(rustc_middle::mir::interpret::Scalar::Ptr(ptr, _))) = c.const_.eval(tcx, env, c.span) {
                    let aid = ptr.provenance.alloc_id();
                    if let Some(rustc_middle::mir::interpret::GlobalAlloc::Memory(a)) = tcx.try_get_global_alloc(aid) {
                        if let Ok(layout) = tcx.layout_of(env.as_query_input(*inner)) {
                            let size = layout.size.bytes() as usize;
                            let a = a.inner();
                            let lo = ptr.into_raw_parts().1.bytes() as usize;
                            if size <= 64 && lo + size <= a.len() {
                                let bytes = a.inspect_with_uninit_and_ptr_outside_interpreter(lo..lo + size);
                                let hex: String = bytes.iter().map(|b| format!("{:02x}", b)).collect();
                                f.push(("deref_bytes_le", J::s(hex)));
                                f.push(("deref_ty", ty_j(tcx, *inner)));
                                if let ty::Adt(adef, _) = inner.kind() {
                                    if adef.is_struct() {
                                        let mut fl = Vec::new();
                                        for (i, fd) in adef.non_enum_variant().fields.iter().enumerate() {
                                            let fo = layout.fields.offset(i).bytes();
                                            fl.push(J::obj(vec![("name", J::s(fd.name.to_string())), ("offset", J::n(fo as i128))]));
                                        }
                                        f.push(("deref_fields", J::arr(fl)));
                                    }
                                }
                            }
                        }
                    }
                }
            }
        }
    }
    J::obj(f)
}

fn operand_j<'tcx>(tcx: TyCtxt<'tcx>, owner: DefId, body: &Body<'tcx>, o: &Operand<'tcx>) -> J {
    match o {
        Operand::Copy(p) => J::obj(vec![
            ("k", J::s("copy".into())),
            ("pl", place_j(tcx, body, p)),
            ("pty", J::s(format!("{}", p.ty(&body.local_decls, tcx).ty))),
        ]),
        Operand::Move(p) => J::obj(vec![
            ("k", J::s("move".into())),
            ("pl", place_j(tcx, body, p)),
            ("pty", J::s(format!("{}", p.ty(&body.local_decls, tcx).ty))),
        ]),
        Operand::Constant(c) => const_j(tcx, owner, c),
        #[allow(unreachable_patterns)]
        _ => J::obj(vec![("k", J::s("other".into())), ("text", J::s(format!("{:?}", o)))]),
    }
}

fn rvalue_j<'tcx>(tcx: TyCtxt<'tcx>, owner: DefId, body: &Body<'tcx>, rv: &Rvalue<'tcx>) -> J {
    let op = |o: &Operand<'tcx>| operand_j(tcx, owner, body, o);
    match rv {
        Rvalue::Use(o, ..) => J::obj(vec![("rv", J::s("use".into())), ("op", op(o))]),
        Rvalue::Repeat(o, _) => J::obj(vec![("rv", J::s("repeat".into())), ("op", op(o))]),
        Rvalue::Ref(_, bk, p) => J::obj(vec![
            ("rv", J::s("ref".into())),
            ("mut", J::b(matches!(bk, mir::BorrowKind::Mut { .. }))),
            ("pl", place_j(tcx, body, p)),
        ]),
        Rvalue::RawPtr(k, p) => J::obj(vec![
            ("rv", J::s("rawptr".into())),
            ("mut", J::b(format!("{:?}", k).contains("Mut"))),
            ("pl", place_j(tcx, body, p)),
        ]),
        Rvalue::ThreadLocalRef(d) => {
            J::obj(vec![("rv", J::s("tls".into())), ("item", J::s(dp(tcx, *d)))])
        }
        Rvalue::Cast(k, o, t) => J::obj(vec![
            ("rv", J::s("cast".into())),
            ("kind", J::s(format!("{:?}", k))),
            ("op", op(o)),
            ("ty", ty_j(tcx, *t)),
        ]),
        Rvalue::BinaryOp(b, ops) => J::obj(vec![
            ("rv", J::s("binop".into())),
            ("op", J::s(format!("{:?}", b))),
            ("a", op(&ops.0)),
            ("b", op(&ops.1)),
        ]),
        Rvalue::UnaryOp(u, o) => J::obj(vec![
            ("rv", J::s("unop".into())),
            ("op", J::s(format!("{:?}", u))),
            ("a", op(o)),
        ]),
        Rvalue::Discriminant(p) => {
            J::obj(vec![("rv", J::s("discr".into())), ("pl", place_j(tcx, body, p))])
        }
        Rvalue::Aggregate(k, ops) => {
            let mut f = vec![("rv", J::s("aggr".into()))];
            match &**k {
                AggregateKind::Array(_) => f.push(("kind", J::s("array".into()))),
                AggregateKind::Tuple => f.push(("kind", J::s("tuple".into()))),
                AggregateKind::Adt(d, vidx, _, _, _) => {
                    f.push(("kind", J::s("adt".into())));
                    f.push(("adt", J::s(dp(tcx, *d))));
                    let adt = tcx.adt_def(*d);
                    let v = adt.variant(*vidx);
                    f.push(("variant", J::s(v.name.to_string())));
                    f.push((
                        "fields",
                        J::arr(v.fields.iter().map(|fd| J::s(fd.name.to_string())).collect()),
                    ));
                }
                AggregateKind::Closure(d, _) => {
                    f.push(("kind", J::s("closure".into())));
                    f.push(("closure", J::s(dp(tcx, *d))));
                    if let Some(ld) = d.as_local() {
                        let caps = tcx.closure_captures(ld);
                        f.push((
                            "fields",
                            J::arr(caps.iter().map(|c| J::s(c.to_symbol().to_string())).collect()),
                        ));
                        f.push((
                            "byref",
                            J::arr(
                                caps.iter()
                                    .map(|c| {
                                        J::b(matches!(
                                            c.info.capture_kind,
                                            ty::UpvarCapture::ByRef(_)
                                        ))
                                    })
                                    .collect(),
                            ),
                        ));
                    }
                }
                other => f.push(("kind", J::s(format!("{:?}", other)))),
            }
            f.push(("ops", J::arr(ops.iter().map(|o| op(o)).collect())));
            J::obj(f)
        }
        Rvalue::CopyForDeref(p) => J::obj(vec![
            ("rv", J::s("use".into())),
            (
                "op",
                J::obj(vec![("k", J::s("copy".into())), ("pl", place_j(tcx, body, p))]),
            ),
        ]),
        other => J::obj(vec![
            ("rv", J::s("other".into())),
            ("text", J::s(format!("{:?}", other))),
        ]),
    }
}

fn block_j<'tcx>(
    tcx: TyCtxt<'tcx>,
    owner: DefId,
    body: &Body<'tcx>,
    bb: &BasicBlockData<'tcx>,
) -> J {
    let mut stmts = Vec::new();
    for st in &bb.statements {
        match &st.kind {
            StatementKind::Assign(b) => {
                let (pl, rv) = &**b;
                stmts.push(J::obj(vec![
                    ("st", J::s("assign".into())),
                    ("pl", place_j(tcx, body, pl)),
                    ("rv", rvalue_j(tcx, owner, body, rv)),
                    ("line", J::n(line_of(tcx, st.source_info.span))),
                ]));
            }
            StatementKind::SetDiscriminant { place, variant_index } => {
                stmts.push(J::obj(vec![
                    ("st", J::s("setdiscr".into())),
                    ("pl", place_j(tcx, body, place)),
                    ("vidx", J::n(variant_index.as_usize() as i128)),
                ]));
            }
            StatementKind::Intrinsic(i) => {
                stmts.push(J::obj(vec![
                    ("st", J::s("intrinsic".into())),
                    ("text", J::s(format!("{:?}", i))),
                ]));
            }
            _ => {}
        }
    }
    let term = bb.terminator();
    let env = ty::TypingEnv::post_analysis(tcx, owner);
    let op = |o: &Operand<'tcx>| operand_j(tcx, owner, body, o);
    let mut t: Vec<(&str, J)> = Vec::new();
    t.push(("line", J::n(line_of(tcx, term.source_info.span))));
    t.push(("exp", J::b(term.source_info.span.from_expansion())));
    match &term.kind {
        TerminatorKind::Goto { target } => {
            t.push(("t", J::s("goto".into())));
            t.push(("target", J::n(target.as_usize() as i128)));
        }
        TerminatorKind::SwitchInt { discr, targets } => {
            t.push(("t", J::s("switch".into())));
            t.push(("discr", op(discr)));
            let mut arms = Vec::new();
            for (v, bbx) in targets.iter() {
                arms.push(J::arr(vec![J::n(v as i128), J::n(bbx.as_usize() as i128)]));
            }
            t.push(("arms", J::arr(arms)));
            t.push(("otherwise", J::n(targets.otherwise().as_usize() as i128)));
        }
        TerminatorKind::Return => t.push(("t", J::s("return".into()))),
        TerminatorKind::Unreachable => t.push(("t", J::s("unreachable".into()))),
        TerminatorKind::UnwindResume => t.push(("t", J::s("resume".into()))),
        TerminatorKind::UnwindTerminate(_) => t.push(("t", J::s("abort".into()))),
        TerminatorKind::Drop { place, target, unwind, .. } => {
            t.push(("t", J::s("drop".into())));
            t.push(("pl", place_j(tcx, body, place)));
            let dty = place.ty(&body.local_decls, tcx).ty;
            t.push(("ty", ty_j(tcx, dty)));
            t.push(("target", J::n(target.as_usize() as i128)));
            if let mir::UnwindAction::Cleanup(u) = unwind {
                t.push(("unwind", J::n(u.as_usize() as i128)));
            }
        }
        TerminatorKind::Call { func, args, destination, target, unwind, fn_span, .. } => {
            t.push(("t", J::s("call".into())));
            t.push(("func", op(func)));
            if let Operand::Constant(c) = func {
                if let ty::FnDef(callee, gargs) = c.const_.ty().kind() {
                    t.push(("callee", J::s(dp(tcx, *callee))));
                    t.push(("callee_local", J::b(callee.is_local())));
                    if matches!(tcx.def_kind(*callee), DefKind::Fn | DefKind::AssocFn) {
                        let csig = tcx.fn_sig(*callee).instantiate_identity().skip_binder();
                        if csig.safety().is_unsafe() {
                            t.push(("callee_unsafe", J::b(true)));
                        }
                    }
                    if let Some(tr) = tcx.trait_of_assoc(*callee) {
                        t.push(("callee_trait", J::s(dp(tcx, tr))));
                    }
                    if let Some(imp) = tcx.inherent_impl_of_assoc(*callee) {
                        let st = tcx.type_of(imp).instantiate_identity().skip_norm_wip();
                        t.push(("callee_self", ty_j(tcx, st)));
                    }
                    t.push((
                        "gargs",
                        J::arr(gargs.iter().map(|g| J::s(format!("{}", g))).collect()),
                    ));
                    if let Some(first) = gargs.types().next() {
                        t.push(("self_ty", ty_j(tcx, first)));
                    }
                    let res = ty::Instance::try_resolve(tcx, env, *callee, gargs).ok().flatten();
                    if let Some(inst) = res {
                        let rd = inst.def_id();
                        t.push(("resolved", J::s(dp(tcx, rd))));
                        t.push(("resolved_local", J::b(rd.is_local())));
                        let kind = match inst.def {
                            ty::InstanceKind::Item(_) => "item",
                            ty::InstanceKind::Virtual(..) => "virtual",
                            ty::InstanceKind::ClosureOnceShim { .. } => "closure_once",
                            ty::InstanceKind::FnPtrShim(..) => "fnptr",
                            ty::InstanceKind::DropGlue(..) => "dropglue",
                            ty::InstanceKind::CloneShim(..) => "cloneshim",
                            ty::InstanceKind::Intrinsic(_) => "intrinsic",
                            _ => "other",
                        };
                        t.push(("resolved_kind", J::s(kind.into())));
                    }
                }
            }
            t.push(("args", J::arr(args.iter().map(|a| op(&a.node)).collect())));
            t.push(("dest", place_j(tcx, body, destination)));
            if let Some(tg) = target {
                t.push(("target", J::n(tg.as_usize() as i128)));
            }
            if let mir::UnwindAction::Cleanup(u) = unwind {
                t.push(("unwind", J::n(u.as_usize() as i128)));
            }
            t.push(("fn_line", J::n(line_of(tcx, *fn_span))));
            t.push(("fn_exp", J::b(fn_span.from_expansion())));
        }
        TerminatorKind::Assert { cond, expected, msg, target, .. } => {
            t.push(("t", J::s("assert".into())));
            t.push(("cond", op(cond)));
            t.push(("expected", J::b(*expected)));
            let (kind, ops): (String, Vec<J>) = match &**msg {
                AssertKind::Overflow(b, l, r) => (format!("Overflow({:?})", b), vec![op(l), op(r)]),
                AssertKind::OverflowNeg(o) => ("OverflowNeg".into(), vec![op(o)]),
                AssertKind::DivisionByZero(o) => ("DivisionByZero".into(), vec![op(o)]),
                AssertKind::RemainderByZero(o) => ("RemainderByZero".into(), vec![op(o)]),
                AssertKind::BoundsCheck { len, index } => {
                    ("BoundsCheck".into(), vec![op(len), op(index)])
                }
                AssertKind::MisalignedPointerDereference { .. } => ("Misaligned".into(), vec![]),
                AssertKind::NullPointerDereference => ("NullDeref".into(), vec![]),
                other => (format!("{:?}", other), vec![]),
            };
            t.push(("kind", J::s(kind)));
            t.push(("ops", J::arr(ops)));
            t.push(("target", J::n(target.as_usize() as i128)));
        }
        TerminatorKind::FalseEdge { real_target, .. } => {
            t.push(("t", J::s("goto".into())));
            t.push(("target", J::n(real_target.as_usize() as i128)));
        }
        TerminatorKind::FalseUnwind { real_target, .. } => {
            t.push(("t", J::s("goto".into())));
            t.push(("target", J::n(real_target.as_usize() as i128)));
        }
        other => {
            t.push(("t", J::s("other".into())));
            t.push(("text", J::s(format!("{:?}", other))));
        }
    }
    J::obj(vec![
        ("stmts", J::arr(stmts)),
        ("term", J::obj(t)),
        ("cleanup", J::b(bb.is_cleanup)),
    ])
}

fn line_of(tcx: TyCtxt<'_>, sp: rustc_span::Span) -> i128 {
    // For macro-expanded code report the line of the outermost call site.
    let sp = sp.source_callsite();
    tcx.sess.source_map().lookup_char_pos(sp.lo()).line as i128
}

fn dump<'tcx>(tcx: TyCtxt<'tcx>, krate: &str) -> String {
    let mut bodies = Vec::new();
    for ldid in tcx.hir_body_owners() {
        let did = ldid.to_def_id();
        let kind = tcx.def_kind(did);
        let kname = match kind {
            DefKind::Fn => "fn",
            DefKind::AssocFn => "method",
            DefKind::Closure => "closure",
            _ => continue,
        };
        let body = tcx.optimized_mir(did);
        let mut f: Vec<(&str, J)> = vec![
            ("id", J::s(dp(tcx, did))),
            ("kind", J::s(kname.into())),
            ("span", span_j(tcx, tcx.def_span(did))),
            ("body_span", span_j(tcx, body.span)),
            ("argc", J::n(body.arg_count as i128)),
        ];
        if matches!(kind, DefKind::Fn | DefKind::AssocFn) {
            f.push(("name", J::s(tcx.item_name(did).to_string())));
            f.push(("vis", J::s(format!("{:?}", tcx.visibility(did)))));
            let sig = tcx.fn_sig(did).instantiate_identity().skip_binder();
            f.push(("unsafe_fn", J::b(sig.safety().is_unsafe())));
            f.push(("sig", J::s(format!("{}", sig))));
        }
        if kind == DefKind::Closure {
            let parent = tcx.typeck_root_def_id(did);
            f.push(("root", J::s(dp(tcx, parent))));
            f.push(("parent", J::s(dp(tcx, tcx.parent(did)))));
        }
        if kind == DefKind::AssocFn {
            let parent = tcx.parent(did);
            match tcx.def_kind(parent) {
                DefKind::Impl { of_trait } => {
                    let st = tcx.type_of(parent).instantiate_identity().skip_norm_wip();
                    f.push(("impl_self", ty_j(tcx, st)));
                    if of_trait {
                        let tr = tcx.impl_trait_ref(parent).instantiate_identity().skip_norm_wip();
                        f.push(("impl_trait", J::s(dp(tcx, tr.def_id))));
                        if let Some(tm) = tcx.trait_item_of(did) {
                            f.push(("trait_item", J::s(dp(tcx, tm))));
                        }
                    }
                }
                DefKind::Trait => {
                    f.push(("in_trait", J::s(dp(tcx, parent))));
                }
                _ => {}
            }
        }
        // locals
        let mut names: Vec<Option<String>> = vec![None; body.local_decls.len()];
        for vdi in &body.var_debug_info {
            if let mir::VarDebugInfoContents::Place(p) = &vdi.value {
                if p.projection.is_empty() {
                    names[p.local.as_usize()] = Some(vdi.name.to_string());
                }
            }
        }
        let mut locals = Vec::new();
        for (i, ld) in body.local_decls.iter_enumerated() {
            let mut lf = vec![("ty", ty_j(tcx, ld.ty))];
            if let Some(n) = &names[i.as_usize()] {
                lf.push(("name", J::s(n.clone())));
            }
            locals.push(J::obj(lf));
        }
        f.push(("locals", J::arr(locals)));
        // upvar debug info: names of captured places (closure bodies)
        let mut upv = Vec::new();
        for vdi in &body.var_debug_info {
            if let mir::VarDebugInfoContents::Place(p) = &vdi.value {
                if !p.projection.is_empty() {
                    upv.push(J::obj(vec![
                        ("name", J::s(vdi.name.to_string())),
                        ("pl", place_j(tcx, body, p)),
                    ]));
                }
            }
        }
        if !upv.is_empty() {
            f.push(("debug_places", J::arr(upv)));
        }
        let blocks: Vec<J> =
            body.basic_blocks.iter().map(|bb| block_j(tcx, did, body, bb)).collect();
        f.push(("blocks", J::arr(blocks)));
        bodies.push(J::obj(f));
    }

    // ADTs, impls, consts/statics
    let mut adts = Vec::new();
    let mut impls = Vec::new();
    let mut consts = Vec::new();
    let mut traits = Vec::new();
    for id in tcx.hir_crate_items(()).definitions() {
        let did = id.to_def_id();
        match tcx.def_kind(did) {
            DefKind::Struct | DefKind::Enum | DefKind::Union => {
                let adt = tcx.adt_def(did);
                let mut vs = Vec::new();
                for v in adt.variants() {
                    let fields: Vec<J> = v
                        .fields
                        .iter()
                        .map(|fd| {
                            let fty = tcx.type_of(fd.did).instantiate_identity().skip_norm_wip();
                            J::obj(vec![
                                ("name", J::s(fd.name.to_string())),
                                ("ty", ty_j(tcx, fty)),
                                ("vis", J::s(format!("{:?}", fd.vis))),
                            ])
                        })
                        .collect();
                    vs.push(J::obj(vec![
                        ("name", J::s(v.name.to_string())),
                        ("fields", J::arr(fields)),
                    ]));
                }
                adts.push(J::obj(vec![
                    ("id", J::s(dp(tcx, did))),
                    ("kind", J::s(format!("{:?}", tcx.def_kind(did)))),
                    ("vis", J::s(format!("{:?}", tcx.visibility(did)))),
                    ("variants", J::arr(vs)),
                    ("span", span_j(tcx, tcx.def_span(did))),
                ]));
            }
            DefKind::Impl { of_trait } => {
                let st = tcx.type_of(did).instantiate_identity().skip_norm_wip();
                let mut f = vec![
                    ("self", ty_j(tcx, st)),
                    ("span", span_j(tcx, tcx.def_span(did))),
                ];
                if of_trait {
                    let tr = tcx.impl_trait_ref(did).instantiate_identity().skip_norm_wip();
                    f.push(("trait", J::s(dp(tcx, tr.def_id))));
                    f.push(("trait_ref", J::s(format!("{}", tr))));
                    // associated consts of the trait evaluated FOR THIS IMPL (also the ones the impl inherits as trait defaults)
                    if tcx.generics_of(did).count() == 0 {
                        let tenv = ty::TypingEnv::fully_monomorphized();
                        for it in tcx.associated_items(tr.def_id).in_definition_order() {
                            if !matches!(it.kind, ty::AssocKind::Const { .. }) {
                                continue;
                            }
                            if let Ok(Some(inst)) = ty::Instance::try_resolve(tcx, tenv, it.def_id, tr.args) {
                                if let Ok(v) = tcx.const_eval_instance(tenv, inst, tcx.def_span(did)) {
                                    let ct = tcx.type_of(it.def_id).instantiate(tcx, tr.args).skip_norm_wip();
                                    let mut cf = vec![
                                        ("id", J::s(format!("<{} as {}>::{}", st, dp(tcx, tr.def_id), it.name()))),
                                        ("kind", J::s("ImplAssocConst".to_string())),
                                        ("span", span_j(tcx, tcx.def_span(did))),
                                        ("ty", ty_j(tcx, ct)),
                                    ];
                                    let mut raw = String::new();
                                    let _ = write!(raw, "{:?}", v);
                                    cf.push(("raw", J::s(raw)));
                                    if let Some(sc) = v.try_to_scalar_int() {
                                        let size = sc.size();
                                        let n: i128 = if ct.is_signed() { sc.to_int(size) } else { sc.to_uint(size) as i128 };
                                        cf.push(("val", J::n(n)));
                                    } else if let mir::ConstValue::Indirect { alloc_id, offset } = v {
                                        // a small aggregate (e.g. a Duration): its bytes and the layout of its fields
                                        if let Ok(layout) = tcx.layout_of(tenv.as_query_input(ct)) {
                                            let size = layout.size.bytes() as usize;
                                            if size <= 64 {
                                                if let rustc_middle::mir::interpret::GlobalAlloc::Memory(a) = tcx.global_alloc(alloc_id) {
                                                    let a = a.inner();
                                                    let lo = offset.bytes() as usize;
                                                    if lo + size <= a.len() {
                                                        let bytes = a.inspect_with_uninit_and_ptr_outside_interpreter(lo..lo + size);
                                                        let hex: String = bytes.iter().map(|b| format!("{:02x}", b)).collect();
                                                        cf.push(("bytes_le", J::s(hex)));
                                                    }
                                                }
                                                if let ty::Adt(adef, _) = ct.kind() {
                                                    if adef.is_struct() {
                                                        let mut fl = Vec::new();
                                                        for (i, fd) in adef.non_enum_variant().fields.iter().enumerate() {
                                                            let fo = layout.fields.offset(i).bytes();
                                                            fl.push(J::obj(vec![
                                                                ("name", J::s(fd.name.to_string())),
                                                                ("offset", J::n(fo as i128)),
                                                            ]));
                                                        }
                                                        cf.push(("fields", J::arr(fl)));
                                                    }
                                                }
                                            }
                                        }
                                    }
                                    consts.push(J::obj(cf));
                                }
                            }
                        }
                    }
                    let hdr = tcx.impl_trait_header(did);
                    f.push(("unsafe", J::b(hdr.safety.is_unsafe())));
                    f.push(("negative", J::b(matches!(hdr.polarity, ty::ImplPolarity::Negative))));
                }
                let preds = tcx.predicates_of(did).instantiate_identity(tcx);
                let ps: Vec<J> =
                    preds.predicates.iter().map(|p| J::s(format!("{}", p.skip_norm_wip()))).collect();
                f.push(("where", J::arr(ps)));
                let items: Vec<J> = tcx
                    .associated_item_def_ids(did)
                    .iter()
                    .map(|d| J::s(dp(tcx, *d)))
                    .collect();
                f.push(("items", J::arr(items)));
                impls.push(J::obj(f));
            }
            DefKind::Trait => {
                let items: Vec<J> = tcx
                    .associated_item_def_ids(did)
                    .iter()
                    .map(|d| J::s(dp(tcx, *d)))
                    .collect();
                traits.push(J::obj(vec![
                    ("id", J::s(dp(tcx, did))),
                    ("items", J::arr(items)),
                    ("vis", J::s(format!("{:?}", tcx.visibility(did)))),
                ]));
            }
            DefKind::Const { .. } | DefKind::Static { .. } | DefKind::AssocConst { .. } => {
                let mut f = vec![
                    ("id", J::s(dp(tcx, did))),
                    ("kind", J::s(format!("{:?}", tcx.def_kind(did)))),
                    ("span", span_j(tcx, tcx.def_span(did))),
                ];
                let t = tcx.type_of(did).instantiate_identity().skip_norm_wip();
                f.push(("ty", ty_j(tcx, t)));
                if matches!(tcx.def_kind(did), DefKind::Static { .. }) {
                    if let Ok(alloc) = tcx.eval_static_initializer(did) {
                        let a = alloc.inner();
                        let len = a.len();
                        let bytes = a.inspect_with_uninit_and_ptr_outside_interpreter(0..len);
                        let hex: String = bytes.iter().map(|b| format!("{:02x}", b)).collect();
                        f.push(("bytes_le", J::s(hex)));
                        if len <= 16 {
                            let mut n: u128 = 0;
                            for (i, b) in bytes.iter().enumerate() {
                                n |= (*b as u128) << (8 * i);
                            }
                            f.push(("val", J::n(n as i128)));
                        }
                    }
                } else if tcx.generics_of(did).count() == 0 && tcx.generics_of(did).parent_count == 0 {
                    if let Ok(v) = tcx.const_eval_poly(did) {
                        let mut s = String::new();
                        let _ = write!(s, "{:?}", v);
                        f.push(("raw", J::s(s)));
                        if let Some(sc) = v.try_to_scalar_int() {
                            let size = sc.size();
                            let n: i128 = if t.is_signed() {
                                sc.to_int(size)
                            } else {
                                sc.to_uint(size) as i128
                            };
                            f.push(("val", J::n(n)));
                        } else if let mir::ConstValue::Indirect { alloc_id, offset } = v {
                            let tenv = ty::TypingEnv::fully_monomorphized();
                            if let Ok(layout) = tcx.layout_of(tenv.as_query_input(t)) {
                                let size = layout.size.bytes() as usize;
                                if size <= 64 {
                                    if let rustc_middle::mir::interpret::GlobalAlloc::Memory(a) = tcx.global_alloc(alloc_id) {
                                        let a = a.inner();
                                        let lo = offset.bytes() as usize;
                                        if lo + size <= a.len() {
                                            let bytes = a.inspect_with_uninit_and_ptr_outside_interpreter(lo..lo + size);
                                            let hex: String = bytes.iter().map(|b| format!("{:02x}", b)).collect();
                                            f.push(("bytes_le", J::s(hex)));
                                        }
                                    }
                                    if let ty::Adt(adef, _) = t.kind() {
                                        if adef.is_struct() {
                                            let mut fl = Vec::new();
                                            for (i, fd) in adef.non_enum_variant().fields.iter().enumerate() {
                                                let fo = layout.fields.offset(i).bytes();
                                                fl.push(J::obj(vec![("name", J::s(fd.name.to_string())), ("offset", J::n(fo as i128))]));
                                            }
                                            f.push(("fields", J::arr(fl)));
                                        }
                                    }
                                }
                            }
                        }
                    }
                }
                consts.push(J::obj(f));
            }
            _ => {}
        }
    }

    // unsafe blocks (HIR)
    let mut unsafe_blocks = Vec::new();
    {
        use rustc_hir::intravisit::{self, Visitor};
        struct V<'a, 'tcx> {
            tcx: TyCtxt<'tcx>,
            out: &'a mut Vec<J>,
            owner: String,
        }
        impl<'a, 'tcx> Visitor<'tcx> for V<'a, 'tcx> {
            fn visit_block(&mut self, b: &'tcx rustc_hir::Block<'tcx>) {
                if let rustc_hir::BlockCheckMode::UnsafeBlock(src) = b.rules {
                    self.out.push(J::obj(vec![
                        ("owner", J::s(self.owner.clone())),
                        ("span", span_j(self.tcx, b.span)),
                        ("user", J::b(matches!(src, rustc_hir::UnsafeSource::UserProvided))),
                    ]));
                }
                intravisit::walk_block(self, b);
            }
        }
        for ldid in tcx.hir_body_owners() {
            let did = ldid.to_def_id();
            if !matches!(tcx.def_kind(did), DefKind::Fn | DefKind::AssocFn | DefKind::Closure) {
                continue;
            }
            let body = tcx.hir_body_owned_by(ldid);
            let mut v = V { tcx, out: &mut unsafe_blocks, owner: dp(tcx, did) };
            v.visit_body(body);
        }
    }

    // source files
    let mut files = Vec::new();
    for sf in tcx.sess.source_map().files().iter() {
        if let rustc_span::FileName::Real(r) = &sf.name {
            if let Some(p) = r.local_path() {
                let ps = p.to_string_lossy().to_string();
                if sf.cnum == LOCAL_CRATE {
                    files.push(J::obj(vec![
                        ("path", J::s(ps)),
                        ("hash", J::s(format!("{:?}", sf.src_hash))),
                        ("len", J::n(sf.normalized_source_len.0 as i128)),
                    ]));
                }
            }
        }
    }

    let opts = &tcx.sess.opts;
    let cfg = J::obj(vec![
        ("debug_assertions", J::b(opts.debug_assertions)),
        ("overflow_checks", J::b(tcx.sess.overflow_checks())),
        ("opt_level", J::s(format!("{:?}", opts.optimize))),
        ("mir_opt_level", J::n(tcx.sess.mir_opt_level() as i128)),
        (
            "features",
            J::arr(
                tcx.sess
                    .config
                    .iter()
                    .filter(|(k, _)| k.as_str() == "feature")
                    .filter_map(|(_, v)| v.map(|s| J::s(s.to_string())))
                    .collect(),
            ),
        ),
        ("test", J::b(tcx.sess.is_test_crate())),
    ]);

    J::obj(vec![
        ("crate", J::s(krate.to_string())),
        ("run_id", J::s(std::env::var("VERIF_RUN_ID").unwrap_or_default())),
        ("cfg", cfg),
        ("files", J::arr(files)),
        ("bodies", J::arr(bodies)),
        ("adts", J::arr(adts)),
        ("impls", J::arr(impls)),
        ("traits", J::arr(traits)),
        ("consts", J::arr(consts)),
        ("unsafe_blocks", J::arr(unsafe_blocks)),
    ])
    .to_string()
}
